"""Runs whole documents through the real command-line entry (gasol_asm.execute_gasol) inside a worker and collects
everything it writes: optimized document, log, statistics CSVs, printed totals."""
import csv
import json
import os
import re

from . import docs, repo

TOTAL_PATTERNS = {
    "initial_gas": r"Estimated initial gas: (-?\d+)",
    "optimized_gas": r"Estimated gas optimized: (-?\d+)",
    "initial_size": r"Estimated initial size in bytes: (-?\d+)",
    "optimized_size": r"Estimated size optimized in bytes: (-?\d+)",
    "initial_instrs": r"Initial number of instructions: (-?\d+)",
    "final_instrs": r"Final number of instructions: (-?\d+)",
}


def run_document(cfg, doc, name="vdoc", extra_args=(), keep_stdout=False, path=None):
    """Returns dict: exc, out (parsed output document or None), out_path, log (dict or None), seqs (list of csv rows),
    blocks (list of csv rows), totals (dict), stdout (optional)."""
    import gasol_asm as G
    if path is None:
        path = "%s.json_solc" % name
        docs.write_doc(doc, path)
    base = os.path.basename(path).split(".")[0]
    outp = "%s_optimized.json_solc" % base
    for f in (outp, base + ".log", base + "_statistics_seq.csv", base + "_statistics_blocks.csv",
              base + "_optimized_from_log.json_solc"):
        if os.path.exists(f):
            os.remove(f)
    params = repo.make_params([path] + list(cfg) + list(extra_args))
    G.init()
    res = {"exc": None, "out": None, "out_path": outp, "log": None, "seqs": [], "blocks": [], "totals": {},
           "exit": None}
    with repo.capture() as buf:
        try:
            G.execute_gasol(params)
        except SystemExit as e:
            res["exit"] = e.code
        except (repo.UnitTimeout, MemoryError):
            raise
        except BaseException as e:
            res["exc"] = "%s: %s" % (type(e).__name__, str(e)[:300])
    text = buf.getvalue()
    if keep_stdout:
        res["stdout"] = text
    for k, pat in TOTAL_PATTERNS.items():
        m = re.findall(pat, text)
        if m:
            res["totals"][k] = int(m[-1])
    res["kept_initial"] = text.count("so initial block is kept")
    if params.from_log is not None:
        outp = "%s_optimized_from_log.json_solc" % base
        res["out_path"] = outp
    if os.path.exists(outp):
        try:
            res["out"] = json.load(open(outp))
            res["out_bytes"] = open(outp, "rb").read()
        except Exception as e:
            res["exc"] = (res["exc"] or "") + " | unreadable output: %s" % e
    if os.path.exists(base + ".log"):
        try:
            res["log"] = json.load(open(base + ".log"))
        except Exception:
            res["log"] = "unreadable"
    for key, f in (("seqs", base + "_statistics_seq.csv"), ("blocks", base + "_statistics_blocks.csv")):
        if os.path.exists(f):
            try:
                with open(f, newline="") as fh:
                    res[key] = list(csv.DictReader(fh))
            except Exception:
                res[key] = []
    return res
