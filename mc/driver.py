"""Drives the real pipeline in-process (inside a forked worker that serves exactly one option set)."""
import os
import traceback

from . import repo
from .blocks import from_asm_block, to_text, strip_markers, to_json_items


class Ctx:
    """Per-worker context: params for one option set."""

    def __init__(self, cfg, input_name="vblk.txt", fmt="-bl"):
        repo.load()
        self.cfg = tuple(cfg)
        argv = [input_name] + ([fmt] if fmt else []) + list(cfg)
        self.params = repo.make_params(argv)
        repo.apply_process_options(self.params)
        import gasol_asm as G
        self.G = G
        self.push0 = self.params.push0


def setup_ctx(cfg):
    ctx = Ctx(cfg)
    if not ctx.params.greedy:
        # Max-SMT back-end: the solver binaries are empty files in this tree; the stand-in enumerator answers instead
        from . import standin
        standin.install()
    # warm-up: the first blocks a forked child processes pay for the copy-on-write faults of the imported heap
    # (seconds of kernel time under contention); keep that out of any measured unit
    for blk in ([("PUSH", 1), ("PUSH", 2), ("ADD", None), ("DUP2", None), ("MSTORE", None)],
                [("DUP1", None), ("SLOAD", None), ("ISZERO", None), ("ISZERO", None), ("SWAP1", None), ("POP", None)]):
        try:
            run_block(ctx, blk)
        except Exception:
            pass
    return ctx


def parse_one(text):
    blocks = repo.parse_blocks(text)
    if len(blocks) != 1:
        raise ValueError("expected one block, got %d for %r" % (len(blocks), text))
    return blocks[0]


def build_one(block, name="verif"):
    """AsmBlock built the way parse_asm builds it from a compiler JSON (the tool's main input path)."""
    from sfs_generator.parser_asm import build_blocks_from_asm_representation
    blocks = build_blocks_from_asm_representation(name, name, to_json_items(block), False)
    if len(blocks) != 1:
        raise ValueError("expected one block, got %d for %r" % (len(blocks), to_text(block)))
    return blocks[0]


def run_block(ctx, block, want_specs=False):
    """The per-block pipeline + keep-or-revert decision exactly as optimize_asm_contract / optimize_isolated_asm_block
    perform it.  Returns dict: out (my block form, markers stripped), changed, eq, reason, log, raised (stage, text),
    candidate (block proposed before the comparison)."""
    G = ctx.G
    text = to_text(block)
    res = {"text": text, "raised": None, "eq": None, "reason": None, "log": None, "changed": False,
           "candidate_changed": False}
    with repo.quiet():
        old_block = build_one(block)
        try:
            new_block, log, _csv = G.optimize_asm_block_asm_format(old_block, ctx.params)
        except repo.UnitTimeout:
            raise
        except MemoryError:
            raise
        except BaseException as e:
            res["raised"] = ("optimize", "%s: %s" % (type(e).__name__, str(e)[:200]), _tb())
            res["out"] = strip_markers(from_asm_block(old_block))
            return res
        cand = strip_markers(from_asm_block(new_block))
        res["candidate"] = cand
        try:
            eq, reason = G.compare_asm_block_asm_format(old_block, new_block, ctx.params)
        except repo.UnitTimeout:
            raise
        except MemoryError:
            raise
        except BaseException as e:
            res["raised"] = ("compare", "%s: %s" % (type(e).__name__, str(e)[:200]), _tb())
            res["out"] = strip_markers(from_asm_block(old_block))
            return res
        res["eq"], res["reason"], res["log"] = eq, reason, log
        if not eq:
            new_block = old_block
        out = strip_markers(from_asm_block(new_block))
    res["out"] = out
    inp = strip_markers(list(block))
    res["changed"] = out != inp
    res["candidate_changed"] = cand != inp
    return res


def _tb():
    return traceback.format_exc()[-1500:]


def specs_for(ctx, block, name=None):
    """Specifications (SFS dicts keyed by sub-block) and sub_block_list for a block under this worker's options."""
    G = ctx.G
    with repo.quiet():
        b = build_one(block)
        if name:
            b.set_block_name(name)
        d, subs = G.compute_original_sfs_with_simplifications(b, ctx.params)
    import copy
    return copy.deepcopy(d["syrup_contract"]), copy.deepcopy(subs)
