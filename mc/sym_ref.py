"""E3 -- symbolic stack machine: does an id sequence realize a specification?

realizes(S, ids) runs ids (DUPk, SWAPk, POP, NOP, ids of S.user_instrs) from S.src_ws over symbolic values and
returns None if every clause holds, else the name of the first failed clause with details.  No shortcuts.
"""

STORE_OPS = {"MSTORE", "MSTORE8", "SSTORE"}


def realizes(sfs, ids, max_len=None, max_height=None, check_bounds=False):
    instrs = {ui["id"]: ui for ui in sfs["user_instrs"]}
    # stack: top at index 0 (as in the specification)
    st = list(sfs["src_ws"])
    peak = len(st)
    executed = []
    pos = {}
    n = 0
    for j, i in enumerate(ids):
        if i == "NOP":
            continue
        n += 1
        if i == "POP":
            if not st:
                return ("underflow", j, i)
            st.pop(0)
        elif i.startswith("DUP") and i[3:].isdigit():
            k = int(i[3:])
            if not 1 <= k <= 16:
                return ("dup-depth", j, i)
            if len(st) < k:
                return ("underflow", j, i)
            st.insert(0, st[k - 1])
        elif i.startswith("SWAP") and i[4:].isdigit():
            k = int(i[4:])
            if not 1 <= k <= 16:
                return ("swap-depth", j, i)
            if len(st) < k + 1:
                return ("underflow", j, i)
            st[0], st[k] = st[k], st[0]
        elif i in instrs:
            ui = instrs[i]
            want = list(ui["inpt_sk"])
            k = len(want)
            if len(st) < k:
                return ("underflow", j, i)
            got = st[:k]
            ok = _same(got, want)
            if not ok and ui.get("commutative") and k == 2:
                ok = _same(got, want[::-1])
            if not ok:
                return ("operands", j, i, got, want)
            del st[:k]
            outs = ui.get("outpt_sk", [])
            for o in reversed(outs):
                st.insert(0, o)
            executed.append(i)
            pos.setdefault(i, []).append(j)
        else:
            return ("unknown-id", j, i)
        peak = max(peak, len(st))
    # stores exactly once
    for i, ui in instrs.items():
        if ui["disasm"] in STORE_OPS or ui.get("storage"):
            c = executed.count(i)
            if c != 1:
                return ("store-count", i, c)
    # declared order
    for a, b in sfs.get("dependencies", []):
        if a in pos and b in pos:
            if not max(pos[a]) < min(pos[b]):
                return ("dependency-order", a, b)
        elif b in pos and a not in pos and a in instrs:
            # b executed although its declared predecessor never was
            da = instrs[a]["disasm"]
            if da in STORE_OPS:
                return ("dependency-missing", a, b)
    if not _same(st, list(sfs["tgt_ws"])):
        return ("final-stack", st, list(sfs["tgt_ws"]))
    if check_bounds:
        if max_len is not None and n > max_len:
            return ("length-bound", n, max_len)
        if max_height is not None and peak > max_height:
            return ("height-bound", peak, max_height)
    return None


def _same(a, b):
    if len(a) != len(b):
        return False
    for x, y in zip(a, b):
        if x == y:
            continue
        # constants may be spelled as int or decimal string
        try:
            if int(x) == int(y):
                continue
        except (TypeError, ValueError):
            pass
        return False
    return True
