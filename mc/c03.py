"""C03 -- simplification rules and constant folding are identities on 256-bit words.

Every rule's left-hand side is instantiated (operands from {var, same var, other var, boundary constants}, pairs and
triples for context rules); the specification produced with rules on / off under each criterion is evaluated (E4)
on every state of the boundary domain and compared with the reference EVM run of the block.  Constants appearing in
a specification must be 256-bit words.
"""
import json
import re

from . import blocks as B
from . import c02, driver, evm_ref as E, pool, report, families, spec_eval as SE
from . import sm_search

GATE_ONLY = set()  # option sets that only contribute the size-gating figure (quick tier: -size with rules off)
GATE_NODE_CAP = 2000
GATE_MAX_LEN = 5  # size gating is decided by explicit-state search on blocks of at most this many instructions

NAME = c02.NAME


def rule_universe():
    """Rule names scraped from the front-end source (reported so that unreached rules are visible)."""
    import os
    from . import repo
    src = open(os.path.join(repo.REPO, "sfs_generator", "gasol_optimization.py")).read()
    names = set(re.findall(r'\brule\s*=\s*f?"([^"]+)"', src))
    names |= set(re.findall(r'\bmsg\s*=\s*"([A-Z][A-Za-z0-9_]*\([^"]*)"', src))
    return sorted(n for n in names if not n.startswith("[") and "{" not in n)


def const_range_violation(specs):
    for key, s in specs.items():
        for v in s.get("tgt_ws", []):
            if isinstance(v, int) and not (0 <= v < E.M):
                return "tgt_ws constant %d out of range in %s" % (v, key)
        for ui in s["user_instrs"]:
            for v in ui.get("inpt_sk", []):
                if isinstance(v, int) and not (0 <= v < E.M):
                    return "operand constant %d out of range in %s" % (v, ui["id"])
            if ui["disasm"] in ("PUSH", "PUSH0"):
                for v in ui.get("value", []):
                    if not (0 <= int(v) < E.M):
                        return "pushed constant %d out of range in %s" % (int(v), ui["id"])
    return None


def peak_height(block):
    """Input words needed and the highest stack the block itself reaches (bound of the size-gating search)."""
    need, _ = E.need_delta(block)
    h = peak = need
    for op, _ in block:
        a, r = E.ARITY[op]
        h += r - a
        peak = max(peak, h)
    return peak


def min_bytes(ctx, block, specs):
    """Fewest bytes of any sequence realizing the specifications (E6, independent byte weights), searched within
    bounds that depend on the block only (so that the rules-on and rules-off figures are comparable)."""
    from .c07 import weights
    push0 = "-push0" not in ctx.cfg
    L, H = len(block) + 1, peak_height(block) + 1
    total = states = 0
    for key in sorted(specs):
        r = sm_search.search(specs[key], L, H, weights(specs[key], "size", push0), node_cap=GATE_NODE_CAP)
        states += r["states"]
        if not r["found"]:
            return None, states, ("capped" if r["capped"] else "not-realizable-within-block-bounds")
        total += r["cost"]
    return total, states, None


def work(ctx, block):
    try:
        specs, _ = driver.specs_for(ctx, block, name=NAME)
    except c02.repo_timeout():
        raise
    except Exception as e:
        return {"viol": None, "stats": None, "raised": "%s: %s" % (type(e).__name__, str(e)[:120])}
    bad = const_range_violation(specs)
    if bad:
        return {"viol": {"block": B.to_text(block), "config": list(ctx.cfg), "diff": {"kind": "constant-range",
                "what": bad}, "shape": ops_of(block),
                "rules": sorted({r for s in specs.values() for r in s.get("rules", [])})}, "stats": None,
                "raised": None}
    gate_ok = "-size" in ctx.cfg and len(block) <= GATE_MAX_LEN and len(specs) == 1
    if tuple(ctx.cfg) in GATE_ONLY:
        if not gate_ok:
            return {"viol": None, "stats": None, "raised": None}
        r = {"viol": None, "stats": None, "raised": None}
    else:
        r = c02.work(ctx, (block, False))
    if r["viol"]:
        r["viol"]["shape"] = ops_of(block)
    if gate_ok:
        mb, states, why = min_bytes(ctx, block, specs)
        r["gate"] = {"min_bytes": mb, "states": states, "why": why,
                     "rules": sorted({x for s in specs.values() for x in s.get("rules", [])})}
    return r


def ops_of(block):
    return ",".join(sorted({op for op, _ in block if not (op.startswith("DUP") or op.startswith("SWAP")
                                                          or op in ("POP", "PUSH"))}))


def signature(v):
    from .c01 import norm_rule
    rules = sorted({norm_rule(r) for r in v.get("rules", [])})
    return "%s;rules=[%s];ops=[%s]" % (v["diff"]["kind"], ",".join(rules), v["shape"])


def cfg_list(tier):
    if tier == "quick":
        return [("-greedy",), ("-size", "-greedy"), ("-no-simplification", "-greedy"),
                ("-size", "-no-simplification", "-greedy")]
    out = []
    for crit in ((), ("-size",), ("-length",)):
        for r in ((), ("-no-simplification",)):
            out.append(tuple(crit + r + ("-greedy",)))
    return out


def main(tier, seed, only=None):
    chk = report.Check("C03", "exploration", tier, seed)
    chk.cov["rule"] = ("rule families (mc/families.py: every unary/binary/ternary operator x operands from {x, x again,"
                       " y, 12 boundary constants}, pairs of operators, ISZERO/NOT chains, special contexts) x criteria"
                       " x rules on/off; the specification is evaluated on every state of D(need) and compared with the"
                       " reference EVM run of the block; non-trivial = (block, option set) whose specification "
                       "reports at least one applied rule")
    universe = rule_universe()
    fired = {}
    tot = {"specs": 0, "states": 0, "oog": 0, "raised": 0, "budget": 0, "with_rules": 0, "gate_states": 0}
    gate = {}
    # size gating is decided on the same (triaged) block set in both tiers
    gate_blocks = {B.to_text(b) for b in list(families.rule_family(level=1)) + families.vocabulary_family()
                   + families.cse_family() + families.sibling_family()}
    blocks = list(families.rule_family(level=1 if tier == "quick" else 2)) + families.vocabulary_family() + families.cse_family() + families.sibling_family()
    if only:
        blocks = [b for b in blocks if only in B.to_text(b)]
    cfgs = cfg_list(tier)
    if tier == "quick":
        GATE_ONLY.add(("-size", "-no-simplification", "-greedy"))

    def on_result(cfg, block, status, value):
        chk.add("evaluations")
        if status != "ok":
            tot["budget"] += 1
            lst = chk.cov.setdefault("skipped_budget_list", [])
            if len(lst) < 20:
                lst.append([B.to_text(block), list(cfg), status])
            return
        if value["raised"]:
            tot["raised"] += 1
        st = value["stats"]
        if st:
            tot["specs"] += st["specs"]
            tot["states"] += st["states"]
            tot["oog"] += st["oog"]
            if st["rules"]:
                tot["with_rules"] += 1
                for r in st["rules"]:
                    from .c01 import norm_rule
                    r = norm_rule(r)
                    if r not in fired:
                        fired[r] = B.to_text(block)
        if value["viol"]:
            chk.violation(signature(value["viol"]), value["viol"])
        if value.get("gate") and B.to_text(block) in gate_blocks:
            gate.setdefault(B.to_text(block), {})["off" if "-no-simplification" in cfg else "on"] = value["gate"]
            tot["gate_states"] += value["gate"]["states"]

    tasks = [(cfg, ch) for cfg in cfgs for ch in pool.chunks(blocks, 600 if "-size" in cfg else max(300, len(blocks) // 16 + 1))]
    pool.run_tasks(tasks, work, setup=driver.setup_ctx, unit_timeout=20, on_result=on_result)
    # size gating: with -size, rules must not make the cheapest realization of the specification larger
    g = {"pairs": 0, "with_rules": 0, "smaller": 0, "equal": 0, "undecided": 0}
    from .c01 import norm_rule as _nr
    for text, d in sorted(gate.items()):
        if "on" not in d or "off" not in d:
            continue
        on, off = d["on"], d["off"]
        if on["min_bytes"] is None or off["min_bytes"] is None:
            g["undecided"] += 1
            continue
        g["pairs"] += 1
        if on["rules"]:
            g["with_rules"] += 1
        if on["min_bytes"] < off["min_bytes"]:
            g["smaller"] += 1
        elif on["min_bytes"] == off["min_bytes"]:
            g["equal"] += 1
        else:
            rules = sorted({_nr(r) for r in on["rules"]})
            chk.violation("size-gating;rules=[%s]" % ",".join(rules),
                          {"block": text, "config": ["-size", "-greedy"], "diff": {"kind": "size-gating",
                           "min_bytes_rules_on": on["min_bytes"], "min_bytes_rules_off": off["min_bytes"]},
                           "rules": on["rules"], "shape": ""})
    chk.cov["size_gating"] = dict(g, search_states=tot["gate_states"], rule=(
        "blocks of <= %d instructions yielding one specification: fewest bytes of any realizing sequence (explicit-"
        "state uniform-cost search, independent byte weights, bounds len(block)+1 / peak+1, %d search nodes) with rules on must not "
        "exceed the figure with rules off under -size" % (GATE_MAX_LEN, GATE_NODE_CAP)))
    unreached = [u for u in universe if u not in fired and not any(u in f or f in u for f in fired)]
    for name, blk in sorted(fired.items())[:12]:
        chk.sample({"rule": name, "first_block": blk})
    chk.cov.update({"blocks": len(blocks), "configs": [list(c) for c in cfgs], "specifications": tot["specs"],
                    "state_evaluations": tot["states"], "oog_states_skipped": tot["oog"],
                    "frontend_raised": tot["raised"], "skipped_budget": tot["budget"],
                    "distinct_nontrivial": tot["with_rules"], "rules_fired": sorted(fired),
                    "rules_fired_count": len(fired), "rule_names_in_source": len(universe),
                    "rule_names_never_fired": unreached})
    return chk.finish(guards={"rules_fired": len(fired) >= 20, "state_evaluations": tot["states"]})


def replay(path):
    w = json.load(open(path))
    from .c01 import parse_text
    block = parse_text(w["block"])
    res = {}
    if w["diff"]["kind"] == "size-gating":
        got = {}

        def on_gate(cfg, unit, status, value):
            got["off" if "-no-simplification" in cfg else "on"] = value["gate"]["min_bytes"] if status == "ok" else None

        pool.run_tasks([(("-size", "-greedy"), [block]), (("-size", "-no-simplification", "-greedy"), [block])], work,
                       setup=driver.setup_ctx, unit_timeout=60, on_result=on_gate)
        print("min bytes with rules on / off:", got.get("on"), got.get("off"))
        if got.get("on") is not None and got.get("off") is not None and got["on"] > got["off"]:
            print("VIOLATION property=C03 replay=%s" % path)
            return 1
        print("no violation on replay")
        return 0

    def on_result(cfg, unit, status, value):
        res["status"], res["value"] = status, value

    pool.run_tasks([(tuple(w["config"]), [block])], work, setup=driver.setup_ctx, unit_timeout=60, on_result=on_result)
    v = res.get("value")
    if res.get("status") == "ok" and v["viol"]:
        print("VIOLATION property=C03 replay=%s" % path)
        print("  " + json.dumps(v["viol"]["diff"]))
        return 1
    print("no violation on replay (%s)" % res.get("status"))
    return 0
