"""E7 -- independent cost functions and well-formedness of solc assembly items (written from libevmasm's
AssemblyItem::bytesRequired and the Berlin/London/Shanghai gas schedule; knows nothing about the tool's classes)."""
import re

from . import evm_ref as E

KNOWN_NAMES = set(E.ARITY) | {"PUSH0", "PC", "MSIZE", "MCOPY", "TLOAD", "TSTORE", "BLOBHASH", "BLOBBASEFEE"}
PSEUDO_WITH_VALUE = {"PUSH [tag]", "PUSH data", "PUSH [$]", "PUSH #[$]", "PUSHLIB", "PUSHIMMUTABLE", "ASSIGNIMMUTABLE"}
HEX = re.compile(r"^[0-9a-fA-F]+$")


def item_bytes(it, push0, tag_width=2):
    """Bytes an item occupies in the final bytecode."""
    n = it["name"]
    v = it.get("value")
    if n == "PUSH0":
        return 1
    if n == "PUSH":
        x = int(v, 16)
        if x == 0 and push0:
            return 1
        return 1 + max(1, (x.bit_length() + 7) // 8)
    if n in ("PUSH [tag]", "PUSH data", "PUSH [$]"):
        return 1 + tag_width
    if n in ("PUSH #[$]", "PUSHSIZE"):
        return 1 + 4
    if n in ("PUSHLIB", "PUSHDEPLOYADDRESS"):
        return 1 + 20
    if n == "PUSHIMMUTABLE":
        return 1 + 32
    if n == "ASSIGNIMMUTABLE":
        return 3 + 32  # one occurrence: PUSH32-sized mstore sequence (libevmasm: (occ-1)*(5+32)+(3+32))
    if n == "tag":
        return 0
    return 1


def block_bytes(items, push0):
    return sum(item_bytes(i, push0) for i in items)


def block_length(items):
    return sum(1 for i in items if i["name"] != "tag")


def static_gas(it, push0):
    n = it["name"]
    if n == "PUSH0":
        return 2
    if n == "PUSH":
        return 2 if (push0 and int(it["value"], 16) == 0) else 3
    return E._static_gas(n, None)


def wellformed(it, input_pseudo):
    """None if the item is a valid assembly item, else a reason.  input_pseudo: set of (name, value) pairs of the
    pseudo pushes / ASSIGNIMMUTABLE occurring in the input block."""
    n = it.get("name")
    v = it.get("value")
    if not isinstance(n, str) or n not in KNOWN_NAMES:
        return "unknown opcode name %r" % (n,)
    for f in ("begin", "end"):
        if not isinstance(it.get(f), int):
            return "field %s missing or not an integer" % f
    if "source" in it and not isinstance(it["source"], int):
        return "field source not an integer"
    if n == "PUSH":
        if not isinstance(v, str) or not HEX.match(v):
            return "PUSH value %r is not a hex string without prefix" % (v,)
        if len(v) > 1 and v[0] == "0":
            return "PUSH value %r has leading zeros" % v
        if int(v, 16) >= E.M:
            return "PUSH value does not fit in 256 bits"
        return None
    if n.startswith("DUP") or n.startswith("SWAP"):
        k = n[3:] if n.startswith("DUP") else n[4:]
        if not k.isdigit() or not 1 <= int(k) <= 16:
            return "bad DUP/SWAP index in %s" % n
        if v is not None:
            return "%s carries a value" % n
        return None
    if n in PSEUDO_WITH_VALUE:
        if v is None:
            return "%s without operand" % n
        if (n, v) not in input_pseudo:
            return "%s operand %r does not occur in the input block" % (n, v)
        return None
    if n in ("tag",):
        return None if isinstance(v, str) else "tag without value"
    if v is not None and n not in ("JUMPDEST",):
        return "%s carries a value %r" % (n, v)
    return None
