"""E1 -- block generators, alphabets, state domains, conversions between my block form and the tool's."""
import itertools

from .evm_ref import ARITY, TERMINAL, State, need_delta, MASK

B255 = 1 << 255
BOUNDARY = [0, 1, 2, 31, 32, 33, 255, 256, B255 - 1, B255, MASK - 1, MASK]


def P(v):
    return ("PUSH", v)


def I(op, arg=None):
    return (op, arg)


def push_width(v):
    return max(1, (v.bit_length() + 7) // 8)


def tok_text(ins, push0_spelling=False):
    op, arg = ins
    if op == "PUSH":
        if arg == 0 and push0_spelling:
            return "PUSH0"
        return "PUSH%d 0x%x" % (push_width(arg), arg)
    if arg is None:
        return op
    return "%s %s" % (op, arg)


def to_text(block, push0_spelling=False):
    """Plain-text rendering accepted by the tool's text parser (`-bl` input format)."""
    return " ".join(tok_text(i, push0_spelling) for i in block)


def from_asm_block(asm_block):
    """Tool's AsmBlock -> my block.  Reads the fields the serializer emits: name and, like AsmBytecode.to_json, the
    real value when a value is present."""
    out = []
    for b in asm_block.instructions:
        v = b.value
        if v is not None and b.disasm != "PUSH":
            v = b.real_value
        out.append(from_asm_item(b.disasm, v))
    return out


def to_json_items(block):
    """My block -> solc asm-JSON items (what the tool reads from a compiler output)."""
    items = []
    for n, (op, arg) in enumerate(block):
        it = {"begin": 10 + n, "end": 20 + n, "name": op, "source": 0}
        if op == "PUSH":
            it["value"] = "%X" % arg
        elif arg is not None:
            it["value"] = str(arg)
        items.append(it)
    return items


def from_asm_item(name, value):
    if name == "PUSH0":
        return ("PUSH", 0)
    if name == "PUSH":
        return ("PUSH", int(value, 16))
    if name in ("tag", "JUMPDEST"):
        return (name, None if value is None else str(value))
    if value is None:
        return (name, None)
    return (name, str(value))


def from_json_items(items):
    """solc asm-JSON item dicts -> my block (independent of the tool's classes)."""
    out = []
    for it in items:
        out.append(from_asm_item(it["name"], it.get("value")))
    return out


def strip_markers(block):
    return [i for i in block if i[0] not in ("tag", "JUMPDEST")]


def show(block):
    return to_text(block)


# --------------------------------------------------------------------------------------------------------------
# alphabets

A_STACK = [I("POP"), I("DUP1"), I("DUP2"), I("DUP3"), I("SWAP1"), I("SWAP2"), I("SWAP3")]
A_ARITH = [I(x) for x in ("ADD", "SUB", "MUL", "DIV", "SDIV", "MOD", "SMOD", "EXP", "ADDMOD", "MULMOD", "SIGNEXTEND")]
A_CMPBIT = [I(x) for x in ("LT", "GT", "SLT", "SGT", "EQ", "ISZERO", "AND", "OR", "XOR", "NOT", "BYTE", "SHL",
                           "SHR", "SAR")]
A_ENV = [I(x) for x in ("ADDRESS", "ORIGIN", "CALLER", "CALLVALUE", "CALLDATALOAD", "CALLDATASIZE", "BALANCE",
                        "SELFBALANCE", "EXTCODESIZE", "TIMESTAMP", "NUMBER", "COINBASE", "GASPRICE", "CHAINID",
                        "BASEFEE", "RETURNDATASIZE")]
A_MEM = [I(x) for x in ("MLOAD", "MSTORE", "MSTORE8", "SLOAD", "SSTORE", "KECCAK256")]
A_SPLIT = [I(x) for x in ("LOG0", "LOG1", "LOG2", "CALLDATACOPY", "CODECOPY", "RETURNDATACOPY", "CALL",
                          "STATICCALL", "DELEGATECALL", "CREATE", "CREATE2", "GAS")] + [I("ASSIGNIMMUTABLE", "a1")]
A_TERM = [I(x) for x in ("JUMP", "JUMPI", "STOP", "RETURN", "REVERT", "INVALID")]
A_PSEUDO = [I("PUSH [tag]", "1"), I("PUSH [tag]", "2"), I("PUSH data", "a1"), I("PUSH [$]", "0"), I("PUSH #[$]", "0"),
            I("PUSHLIB", "lib1"), I("PUSHLIB", "lib2"), I("PUSHIMMUTABLE", "a1"), I("PUSHSIZE"),
            I("PUSHDEPLOYADDRESS")]

CORE = [I("DUP1"), I("DUP2"), I("SWAP1"), I("SWAP2"), I("POP"), P(0), P(1), P(MASK),
        I("ADD"), I("SUB"), I("DIV"), I("ISZERO"), I("AND"), I("SHR"),
        I("MLOAD"), I("MSTORE"), I("SLOAD"), I("SSTORE")]

CORE8 = [I("DUP1"), I("SWAP1"), I("POP"), P(0), P(1), I("ADD"), I("MSTORE"), I("MLOAD")]
MIXED = CORE8 + [I("LOG1"), I("CALLDATACOPY"), I("GAS"), I("SSTORE"), I("JUMPI"), I("RETURN"),
                 I("PUSH [tag]", "1"), I("PUSHLIB", "lib1"), I("ASSIGNIMMUTABLE", "a1")]


def tree(alphabet, depth, max_need=4, max_height=24, min_len=1):
    """All instruction sequences of length min_len..depth over `alphabet` (prefix tree, breadth first).  A prefix
    is pruned only when it needs more than max_need input words, exceeds max_height, or already ended with a
    terminal instruction."""
    level = [((), 0, 0)]  # (seq, need, height)
    for d in range(1, depth + 1):
        nxt = []
        for seq, need, h in level:
            if seq and seq[-1][0] in TERMINAL:
                continue
            for ins in alphabet:
                pops, pushes = ARITY[ins[0]]
                n2 = need
                if pops > h + need:
                    n2 = pops - h
                if n2 > max_need:
                    continue
                h2 = h + pushes - pops
                if h2 + n2 > max_height:
                    continue
                s2 = seq + (ins,)
                nxt.append((s2, n2, h2))
                if d >= min_len:
                    yield list(s2)
        level = nxt


def count_tree(alphabet, depth, **kw):
    return sum(1 for _ in tree(alphabet, depth, **kw))


# --------------------------------------------------------------------------------------------------------------
# state domains

V1 = [0, 1, 2, 3, 5, 31, 32, 33, 64, 96, 255, 256, 257, 1 << 16, (1 << 32) - 1, 1 << 64, (1 << 160) - 1, 1 << 160,
      B255 - 1, B255, B255 + 1, MASK - 2, MASK - 1, MASK]
V2 = [0, 1, 2, 31, 32, 33, 256, B255, MASK - 1, MASK]
V3 = [0, 1, 32, 33, B255, MASK]
V4 = [0, 1, 32, MASK]
V5 = [0, 1, MASK]


def domain(k, mem_family=False):
    """State domain D(k): list of State for a block needing k input words (top of stack = last element).
    Full product for small k over boundary values; always contains equal components and components that
    differ by 1, 31, 32 (forced aliasing).  Exhaustive over the stated value sets, never sampled."""
    if k == 0:
        return [State([], 0), State([], 1, sto_zero=True, mem_zero=True)]
    if k == 1:
        vs = V1
    elif k == 2:
        vs = V2
    elif k == 3:
        vs = V3
    elif k == 4:
        vs = V4
    elif k == 5:
        vs = V5
    else:
        vs = None
    out = []
    if vs is not None:
        for tup in itertools.product(vs, repeat=k):
            out.append(State(list(tup), 0))
    else:
        # deep blocks: per-position boundary walk (each position takes each V5 value while the others hold
        # distinct small values), plus all-equal tuples
        base = [7 + 3 * i for i in range(k)]
        out.append(State(list(base), 0))
        for i in range(k):
            for v in V5:
                s = list(base)
                s[i] = v
                out.append(State(s, 0))
        for v in V5:
            out.append(State([v] * k, 0))
    # aliasing tuples for memory reasoning: small addresses that overlap by 1..31 bytes
    if k >= 2:
        small = [0, 1, 31, 32, 33, 64]
        for a, b in itertools.product(small, repeat=2):
            for rest in ([5] * (k - 2), [32] * (k - 2)):
                out.append(State(list(rest) + [b, a], 0))
                if k >= 3:
                    out.append(State([b, a] + list(rest), 0))
    # a second salt (different memory/storage/environment contents) on a thin slice, and zeroed memory/storage
    extra = []
    for s in out[:: max(1, len(out) // 12)]:
        extra.append(State(s.stack, 1))
        extra.append(State(s.stack, 2, mem_zero=True, sto_zero=True))
    return out + extra


def dedup_states(states):
    seen = set()
    out = []
    for s in states:
        k = (tuple(s.stack), s.salt, s.mem_zero, s.sto_zero)
        if k not in seen:
            seen.add(k)
            out.append(s)
    return out


_DOM_CACHE = {}


def states_for(block_a, block_b=None):
    k = need_delta(block_a)[0]
    if block_b is not None:
        # both are given the depth the *original* needs: a deeper need of the new block is itself a violation
        pass
    d = _DOM_CACHE.get(k)
    if d is None:
        d = dedup_states(domain(k))
        _DOM_CACHE[k] = d
    return d
