"""E7 (part) -- solc asm-JSON document builder and independent reader (standard json only; knows nothing about
the tool's classes)."""
import copy
import json

from .blocks import to_json_items, from_asm_item
from .evm_ref import TERMINAL

SPLITTERS_AT_END = set(TERMINAL) - {"SELFDESTRUCT"}  # the tool's parser closes a block at these


def code_from_blocks(blocks, first_tag=1, tags=True):
    """Concatenate my blocks into one .code item list: every block after the first starts with `tag n JUMPDEST`
    (so that block boundaries survive whatever the terminal structure is)."""
    items = []
    n = 0
    for bi, blk in enumerate(blocks):
        if tags and bi > 0:
            t = first_tag + bi
            items.append({"begin": 1, "end": 2, "name": "tag", "source": 0, "value": str(t)})
            items.append({"begin": 1, "end": 2, "name": "JUMPDEST", "source": 0})
        for it in to_json_items(blk):
            it = dict(it)
            it["begin"] += 100 * n
            it["end"] += 100 * n
            items.append(it)
        n += 1
    return items


def make_contract(init_blocks, run_blocks=None, auxdata="a2646970667358", data_extra=None, source_list=None,
                  more_run_blocks=()):
    """more_run_blocks: further code-bearing data sections ("1", "2", ...), e.g. a child contract deployed by the
    constructor next to the run code."""
    asm = {".code": code_from_blocks(init_blocks)}
    data = {}
    if run_blocks is not None:
        sub = {".code": code_from_blocks(run_blocks, first_tag=50)}
        if auxdata is not None:
            sub[".auxdata"] = auxdata
        data["0"] = sub
    for n, blks in enumerate(more_run_blocks):
        data[str(n + 1)] = {".auxdata": "bb%02d" % n, ".code": code_from_blocks(blks, first_tag=200 + 100 * n)}
    if data_extra:
        data.update(data_extra)
    asm[".data"] = data
    if source_list is not None:
        asm["sourceList"] = source_list
    return {"asm": asm}


def make_doc(contracts, version="0.8.17+commit.8df45f5f.Linux.g++"):
    """contracts: dict name -> contract dict (from make_contract) or {} / {"asm": None} for contracts without asm."""
    return {"contracts": dict(contracts), "version": version}


def write_doc(doc, path):
    with open(path, "w") as f:
        json.dump(doc, f)


# ---------------------------------------------------------------------------------------------------------------
# independent reader

def code_streams(doc):
    """Yield (path tuple, item list) for every .code stream of every contract (init code and nested run codes)."""
    for cname, c in doc.get("contracts", {}).items():
        asm = c.get("asm") if isinstance(c, dict) else None
        if not asm:
            continue
        yield from _streams((cname,), asm)


def _streams(path, asm):
    if ".code" in asm:
        yield path + (".code",), asm[".code"]
    for k, v in (asm.get(".data") or {}).items():
        if isinstance(v, dict):
            yield from _streams(path + (".data", k), v)


def split_items(items):
    """Partition an item list into basic blocks: a `tag` starts a block, a terminal instruction ends one."""
    blocks = []
    cur = []
    for it in items:
        if it["name"] == "tag" and cur:
            blocks.append(cur)
            cur = []
        cur.append(it)
        if it["name"] in SPLITTERS_AT_END:
            blocks.append(cur)
            cur = []
    if cur:
        blocks.append(cur)
    return blocks


def block_of_items(items):
    return [from_asm_item(it["name"], it.get("value")) for it in items]


def strip_code(doc):
    """The document with every .code list replaced by its length marker: what must be preserved verbatim."""
    d = copy.deepcopy(doc)
    for _p, items in list(code_streams(d)):
        del items[:]
    return d
