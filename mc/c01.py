"""C01 -- optimized blocks are observationally equivalent to the original.

Enumerates blocks (prefix trees / families) x option sets (deviation bounded) x concrete states; runs the real
per-block pipeline with its keep-or-revert decision; compares input and emitted block on the reference EVM.
"""
import itertools

from . import blocks as B
from . import configs, driver, evm_ref, pool, report, families


def work(ctx, block):
    r = driver.run_block(ctx, block)
    out = {"changed": r["changed"], "raised": r["raised"][:2] if r["raised"] else None, "viol": None,
           "states": 0, "oog": 0, "cand_changed": r.get("candidate_changed", False), "eq": r["eq"]}
    if r["changed"]:
        v, n, oog = equivalent(block, r["out"])
        out["states"], out["oog"] = n, oog
        out["out"] = B.to_text(r["out"])
        if v is not None:
            sig = signature(ctx, block, v)
            out["viol"] = {"signature": sig, "block": B.to_text(block), "emitted": B.to_text(r["out"]),
                           "config": list(ctx.cfg), "diff": v}
    return out


def equivalent(block, new):
    """Compare on every state of the domain; returns (first difference or None, #states compared, #oog)."""
    need_a, delta_a = evm_ref.need_delta(block)
    need_b, delta_b = evm_ref.need_delta(new)
    if need_b > need_a:
        return {"kind": "needs-deeper-stack", "need_in": need_a, "need_out": need_b}, 0, 0
    halts = block and block[-1][0] in evm_ref.TERMINAL
    if delta_a != delta_b and not halts:
        return {"kind": "height-change", "delta_in": delta_a, "delta_out": delta_b}, 0, 0
    n = oog = 0
    for st in B.states_for(block):
        d = evm_ref.compare(block, new, st)
        if d == "oog":
            oog += 1
            continue
        n += 1
        if d is not None:
            d["state"] = st.key()
            return d, n, oog
    return None, n, oog


def signature(ctx, block, diff):
    rules = set()
    try:
        specs, _ = driver.specs_for(ctx, block)
        for s in specs.values():
            rules.update(s.get("rules", []))
    except Exception:
        rules.add("<spec-raised>")
    rules = {norm_rule(r) for r in rules}
    ops = sorted({op for op, _ in block if not (op.startswith("DUP") or op.startswith("SWAP") or op in ("POP", "PUSH"))})
    return "rules=[%s];ops=[%s]" % (",".join(sorted(rules)), ",".join(ops))


def norm_rule(r):
    """Rule names as call sites: constant-folding reports carry their operands, keep only the operator."""
    import re
    m = re.match(r"EVAL \[?\(?.*?'([^']*)'\)?\]?$", r)
    if r.startswith("EVAL "):
        parts = re.findall(r"'([^']*)'", r)
        return "EVAL[%s]" % (parts[-1] if parts else "?")
    if r.startswith("EVAL("):
        return "EVAL(ISZERO)"
    if r.startswith("("):
        # memory rules carry the access they fired on: "('33', 's(0)', 'mstore8') of mload"
        names = re.findall(r"'([a-z]+[0-9]*)'\)", r)
        tail = r.rsplit(")", 1)[-1].strip()
        return "<%s> %s" % (",".join(re.sub(r"[0-9]+$", "", n) if n.startswith(("mload", "sload")) else n
                                     for n in names), tail)
    return r


def unit_sets(tier, seed):
    """(name, iterator of blocks, list of option sets)."""
    c1 = configs.configs(1)
    c2 = configs.configs(2)
    if tier == "quick":
        yield "tree(CORE,3)", B.tree(B.CORE, 3), c1
        yield "tree(CORE,4)@default", B.tree(B.CORE, 4, min_len=4), [("-greedy",)]
        yield "tree(MIXED,3)", B.tree(B.MIXED, 3), c1
        yield "tree(CORE,3)@smt", B.tree(B.CORE, 3), [(), ("-ub-greedy",)]
        yield "rule-families", families.rule_family(level=1), [("-greedy",)]
        yield "mem-families", families.mem_family(k=2), [("-greedy",), ("-storage", "-greedy"),
                                                         ("-partition", "-greedy"), ("-no-simplification", "-greedy")]
        yield "sandwich-family/2", list(families.sandwich_family())[::2], [("-greedy",)]
        yield "consume-family/2", list(families.consume_family())[::2], [("-greedy",)]
        yield "pseudo-family", families.pseudo_family(), [("-greedy",), ("-size", "-greedy")]
        yield "vocabulary-family", families.vocabulary_family(), c1
        yield "cse-family", families.cse_family(), [("-greedy",), ("-no-simplification", "-greedy")]
        yield "sibling-family/2", families.sibling_family()[::2], [("-greedy",)]
    else:
        yield "sandwich-family", families.sandwich_family(), c1
        yield "consume-family", families.consume_family(), c1
        yield "pseudo-family", families.pseudo_family(), c2
        yield "vocabulary-family", families.vocabulary_family(), c2
        yield "cse-family", families.cse_family(), c2
        yield "sibling-family", families.sibling_family(), c1
        yield "tree(CORE,4)", B.tree(B.CORE, 4), c1
        yield "tree(CORE,2)@all", B.tree(B.CORE, 2), configs.all_configs()
        yield "tree(MIXED,4)", B.tree(B.MIXED, 4), c2
        yield "rule-families", families.rule_family(level=2), c2
        yield "mem-families", families.mem_family(k=3), c2
        yield "tree(CORE,5)@default", B.tree(B.CORE, 5, min_len=5), [("-greedy",), ("-greedy", "-size")]
        yield "tree(CORE,4)@smt", B.tree(B.CORE, 4), [(), ("-ub-greedy",), ("-size",), ("-ub-greedy", "-length"),
                                                      ("-solver", "z3"), ("-storage",)]
        yield "tree(MIXED,3)@smt", B.tree(B.MIXED, 3), [(), ("-ub-greedy",), ("-size", "-ub-greedy")]


def main(tier, seed, only=None):
    chk = report.Check("C01", "exploration", tier, seed)
    chk.cov["rule"] = ("blocks = prefix trees over named alphabets and rule/memory families (mc/blocks.py, "
                       "mc/families.py) x option sets (deviation-bounded) ; every emitted block that differs from "
                       "its input is executed against the input on every state of D(need(B)) on the reference EVM; "
                       "non-trivial = distinct (block, option set) whose emitted block differs from the input")
    chk.assumptions = ["equivalence modulo gas metering (GAS yields a token; gas exhaustion not modelled)",
                       "MSIZE and PC outside the alphabets", "states touching memory >= 2^32 are excluded (oog)",
                       "back-ends: greedy, and Max-SMT / -ub-greedy with the stand-in solver (mc/standin.py: the model "
                       "enumerator answering with a minimum-penalty model for init_progr_len <= 5, 'no model' beyond)"]
    stats = {"blocks": 0, "changed": 0, "raised": 0, "timeouts": 0, "states": 0, "oog": 0, "cand_rejected": 0}
    per_set = {}

    def on_result(cfg, block, status, value):
        chk.add("evaluations")
        if status != "ok":
            stats["timeouts"] += 1
            chk.add("skipped_budget")
            lst = chk.cov.setdefault("skipped_budget_list", [])
            if len(lst) < 20:
                lst.append([B.to_text(block), list(cfg), status])
            return
        stats["blocks"] += 1
        if value["raised"]:
            stats["raised"] += 1
        if value["cand_changed"] and not value["changed"]:
            stats["cand_rejected"] += 1
        if value["changed"]:
            stats["changed"] += 1
            chk.add("distinct_nontrivial")
            stats["states"] += value["states"]
            stats["oog"] += value["oog"]
            if stats["changed"] % 997 == 1:
                chk.sample({"block": B.to_text(block), "config": list(cfg), "emitted": value["out"],
                            "states_compared": value["states"]})
        if value["viol"]:
            chk.violation(value["viol"]["signature"], value["viol"])

    for name, gen, cfgs in unit_sets(tier, seed):
        if only and only not in name:
            continue
        blocks = list(gen)
        per_set[name] = {"blocks": len(blocks), "configs": len(cfgs)}
        tasks = []
        for cfg in cfgs:
            for ch in pool.chunks(blocks, max(400, len(blocks) // 16 + 1)):
                tasks.append((cfg, ch))
        pool.run_tasks(tasks, work, setup=driver.setup_ctx, unit_timeout=10, on_result=on_result)
    chk.cov.update({"sets": per_set, "pipeline_runs": stats["blocks"], "blocks_changed": stats["changed"],
                    "pipeline_raised": stats["raised"], "states_compared": stats["states"],
                    "oog_states_skipped": stats["oog"], "candidates_rejected_by_checker": stats["cand_rejected"]})
    return chk.finish(guards={"blocks_changed": stats["changed"], "states_compared": stats["states"]})


def replay(path):
    """Re-execute one stored witness against $GASOL_REPO without the explorer."""
    import json
    w = json.load(open(path))
    block = parse_text(w["block"])
    res = {}

    def on_result(cfg, blk, status, value):
        res["status"], res["value"] = status, value

    pool.run_tasks([(tuple(w["config"]), [block])], work, setup=driver.setup_ctx, unit_timeout=20, on_result=on_result)
    v = res.get("value")
    print("replay status=%s emitted=%s" % (res.get("status"), v and v.get("out")))
    if res.get("status") == "ok" and v["viol"]:
        print("VIOLATION property=C01 replay=%s" % path)
        print("  diff: %s" % json.dumps(v["viol"]["diff"]))
        return 1
    print("no violation on replay")
    return 0


def parse_text(text):
    """My own reader of the plain text form produced by blocks.to_text."""
    toks = text.split()
    out = []
    i = 0
    while i < len(toks):
        t = toks[i]
        if t == "PUSH0":
            out.append(("PUSH", 0))
        elif t.startswith("PUSH") and t[4:].isdigit():
            out.append(("PUSH", int(toks[i + 1], 16)))
            i += 1
        elif t == "PUSH" and toks[i + 1] in ("[tag]", "data", "[$]", "#[$]"):
            out.append(("PUSH " + toks[i + 1], toks[i + 2]))
            i += 2
        elif t in ("PUSHLIB", "PUSHIMMUTABLE", "ASSIGNIMMUTABLE", "tag"):
            out.append((t, toks[i + 1]))
            i += 1
        else:
            out.append((t, None))
        i += 1
    return out
