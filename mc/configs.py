"""E9 -- option lattice.  An option set is a tuple of CLI flags (the input path and format flag are added by the
driver).  configs(dev) = all option sets with <= dev deviations from the default along the axes below."""
import itertools

AXES = [
    ("split", ["", "-storage", "-partition"]),
    ("criterion", ["", "-size", "-length"]),
    ("rules", ["", "-no-simplification"]),
    ("push0", ["", "-push0"]),  # "-push0" DISABLES PUSH0 (store_false)
]
BACKENDS = ["-greedy", "-ub-greedy", "smt"]


def _flags(choice, backend):
    fl = [c for c in choice if c]
    if backend != "smt":
        fl.append(backend)
    return tuple(fl)


def configs(dev, backends=("-greedy",)):
    """Deviation-bounded option sets (backend deviation counts as a deviation too when several are given)."""
    out = []
    seen = set()
    names = [a[1] for a in AXES]
    for be_i, be in enumerate(backends):
        be_dev = 0 if be_i == 0 else 1
        for choice in itertools.product(*names):
            d = sum(1 for c in choice if c) + be_dev
            if d <= dev:
                fl = _flags(choice, be)
                if fl not in seen:
                    seen.add(fl)
                    out.append(fl)
    out.sort(key=lambda f: (len(f), f))
    return out


def all_configs(backends=("-greedy",)):
    return configs(99, backends)


def describe(cfg):
    return " ".join(cfg) if cfg else "(default)"
