"""Binding to the implementation under test.

Imports gasol-optimizer from $GASOL_REPO (default /repo) *once* in the parent process; worker
processes are forked from that pristine parent (nothing of the pipeline has been executed in it).
All interception is done by rebinding module attributes here -- no source hook in /repo.
"""
import contextlib
import io
import os
import shutil
import signal
import sys
import tempfile
import warnings

REPO = os.environ.get("GASOL_REPO", "/repo")
SCRATCH_ROOT = os.environ.get("VERIF_SCRATCH", "/dev/shm")

sys.dont_write_bytecode = True
os.environ["PYTHONDONTWRITEBYTECODE"] = "1"
warnings.filterwarnings("ignore", category=SyntaxWarning)

_loaded = False


def load():
    """Import the repository modules (idempotent)."""
    global _loaded
    if _loaded:
        return
    if REPO not in sys.path:
        sys.path.insert(0, REPO)
    from . import cov
    cov.start(REPO)
    with quiet():
        import gasol_asm  # noqa: F401
    _loaded = True
    # children are forked from this process: keep the collector from touching (and so copying) the imported heap
    import gc
    gc.collect()
    gc.freeze()


class UnitTimeout(BaseException):
    """BaseException so that the tool's own `except Exception` handlers do not swallow it."""


ALARM_FIRED = [False]


def _alarm(signum, frame):
    ALARM_FIRED[0] = True
    # re-arm: if a bare `except:` in the tool swallows this one, the next tick raises again
    signal.setitimer(signal.ITIMER_VIRTUAL, 0.5)
    signal.setitimer(signal.ITIMER_REAL, 3)
    raise UnitTimeout()


WALL_FACTOR = 8


@contextlib.contextmanager
def cpu_alarm(seconds):
    """Raise UnitTimeout inside the block after `seconds` of user CPU time of this process (SIGVTALRM), or after
    WALL_FACTOR x `seconds` of wall time (SIGALRM; covers a unit that blocks instead of computing).  CPU time, so
    that a loaded machine (other checks, the repository's own test-suite running next to this one) cannot turn a
    fast unit into a timeout."""
    old = signal.signal(signal.SIGALRM, _alarm)
    oldv = signal.signal(signal.SIGVTALRM, _alarm)
    ALARM_FIRED[0] = False
    signal.setitimer(signal.ITIMER_VIRTUAL, seconds)
    signal.setitimer(signal.ITIMER_REAL, seconds * WALL_FACTOR)
    try:
        yield
        if ALARM_FIRED[0]:
            raise UnitTimeout()  # the alarm was swallowed somewhere inside the tool
    finally:
        signal.setitimer(signal.ITIMER_VIRTUAL, 0)
        signal.setitimer(signal.ITIMER_REAL, 0)
        signal.signal(signal.SIGALRM, old)
        signal.signal(signal.SIGVTALRM, oldv)


class _Null(io.TextIOBase):
    def write(self, s):
        return len(s)


@contextlib.contextmanager
def quiet():
    """Silence the tool's prints (it is very chatty)."""
    out, err = sys.stdout, sys.stderr
    sys.stdout = _Null()
    sys.stderr = _Null()
    try:
        yield
    finally:
        sys.stdout, sys.stderr = out, err


@contextlib.contextmanager
def capture():
    out, err = sys.stdout, sys.stderr
    buf = io.StringIO()
    sys.stdout = buf
    sys.stderr = _Null()
    try:
        yield buf
    finally:
        sys.stdout, sys.stderr = out, err


_scratch = None


def enter_scratch(tag="w"):
    """Give this process a private scratch directory: cwd (output files are written to the cwd) and the
    tool's temporary tree (global_params.paths.* are fixed at import, so they are re-pointed here)."""
    global _scratch
    load()
    import global_params.paths as paths
    d = tempfile.mkdtemp(prefix="gasolverif_%s_" % tag, dir=SCRATCH_ROOT)
    _scratch = d
    os.chdir(d)
    paths.tmp_path = d + "/"
    paths.gasol_folder = "gasol_tmp"
    paths.gasol_path = d + "/gasol_tmp/"
    paths.json_path = paths.gasol_path + "jsons"
    paths.smt_encoding_path = paths.gasol_path + "smt_encoding/"
    paths.solutions_path = paths.gasol_path + "solutions/"
    paths.dot_path = paths.gasol_path + "dot/"
    paths.csv_file = paths.gasol_path + "solutions/statistics.csv"
    return d


def leave_scratch():
    global _scratch
    if _scratch:
        os.chdir("/")
        shutil.rmtree(_scratch, ignore_errors=True)
        _scratch = None


def wipe_tool_tmp():
    import global_params.paths as paths
    shutil.rmtree(paths.gasol_path, ignore_errors=True)


def make_params(argv):
    """Build OptimizationParams exactly as main_gasol does, from a CLI argument vector."""
    load()
    from argparse import ArgumentParser
    import gasol_asm as G
    from global_params.options import OptimizationParams
    ap = ArgumentParser()
    G.options_gasol(ap)
    parsed = ap.parse_args(argv)
    p = OptimizationParams()
    p.parse_args(parsed)
    return p


def apply_process_options(params):
    """The part of execute_gasol that sets process-wide state from the options (sticky: one option set per process)."""
    import gasol_asm as G
    import global_params.constants as constants
    G.init()
    if params.split_storage:
        constants.append_store_instructions_to_split()
    constants._set_push0(params.push0)
    G.modify_file_names(params)


def parse_blocks(text):
    from sfs_generator.parser_asm import parse_blocks_from_plain_instructions
    return parse_blocks_from_plain_instructions(text)
