"""C16 -- the numeric bounds published in a specification are valid.

For every specification produced by the front-end on the enumerated blocks (several option sets): an explicit-state
search over the reference stack machine (E6) must find a realizing sequence within (init_progr_len, max_sk_sz); the
shortest realizing length L* (any height) must satisfy min_length, min_length_instrs, min_length_bounds <= L*.
"""
import json

from . import blocks as B
from . import driver, families, pool, report, repo, sm_search, sym_ref

NAME = "verif_block_0"
MAX_B0 = 6


def check_spec(sfs):
    b0 = sfs["init_progr_len"]
    bs = sfs["max_sk_sz"]
    r = sm_search.search(sfs, b0, bs, "length")
    out = {"states": r["states"], "transitions": r["transitions"], "undecided": False, "viol": None}
    if r["capped"]:
        out["undecided"] = True
        return out
    if not r["found"]:
        # is it the stack bound or the length bound?
        r2 = sm_search.search(sfs, b0, len(sfs["src_ws"]) + b0 + 1, "length")
        out["states"] += r2["states"]
        out["transitions"] += r2["transitions"]
        if r2["capped"]:
            out["undecided"] = True
            return out
        which = "max_sk_sz-too-small" if r2["found"] else "init_progr_len-too-small"
        out["viol"] = {"clause": "bounds-infeasible", "which": which, "init_progr_len": b0, "max_sk_sz": bs,
                       "witness_with_larger_stack": r2["ids"]}
        return out
    bad = sym_ref.realizes(sfs, r["ids"], max_len=b0, max_height=bs, check_bounds=True)
    if bad is not None:
        raise report.Broken("E6 witness rejected by E3: %s %s" % (r["ids"], bad))
    out["witness"] = r["ids"]
    found_len = len(r["ids"])
    published = [(k, sfs.get(k)) for k in ("min_length", "min_length_instrs", "min_length_bounds")
                 if isinstance(sfs.get(k), int)]
    for key, v in published:
        if v > found_len:
            out["viol"] = {"clause": "min-length-too-large", "field": key, "published": v, "shortest": found_len,
                           "shortest_sequence": r["ids"]}
            return out
    m = max([v for _k, v in published], default=0)
    if m >= 1:
        # no realizing sequence may be shorter than the published minimum, whatever the stack height
        r3 = sm_search.search(sfs, m - 1, len(sfs["src_ws"]) + m + 1, "length")
        out["states"] += r3["states"]
        out["transitions"] += r3["transitions"]
        if r3["capped"]:
            out["undecided"] = True
            return out
        if r3["found"]:
            key = max(published, key=lambda kv: kv[1])[0]
            out["viol"] = {"clause": "min-length-too-large", "field": key, "published": m, "shortest": len(r3["ids"]),
                           "shortest_sequence": r3["ids"]}
    return out


def work(ctx, block):
    if not hasattr(ctx, "max_b0"):
        import os
        ctx.max_b0 = int(os.environ.get("C16_MAX_B0", MAX_B0))
    res = {"specs": 0, "decided": 0, "undecided": 0, "too_long": 0, "states": 0, "transitions": 0, "viol": None,
           "raised": False}
    try:
        specs, _ = driver.specs_for(ctx, block, name=NAME)
    except (repo.UnitTimeout, MemoryError):
        raise
    except Exception:
        res["raised"] = True
        return res
    for key, sfs in specs.items():
        res["specs"] += 1
        if sfs["init_progr_len"] > ctx.max_b0:
            res["too_long"] += 1
            continue
        r = check_spec(sfs)
        res["states"] += r["states"]
        res["transitions"] += r["transitions"]
        if r["undecided"]:
            res["undecided"] += 1
            continue
        res["decided"] += 1
        if r["viol"] and res["viol"] is None:
            v = r["viol"]
            v.update({"block": B.to_text(block), "config": list(ctx.cfg), "spec_key": key,
                      "spec": {k: sfs[k] for k in ("src_ws", "tgt_ws", "init_progr_len", "max_sk_sz", "min_length",
                                                   "dependencies", "rules")},
                      "user_instrs": [[u["id"], u["inpt_sk"], u["outpt_sk"]] for u in sfs["user_instrs"]]})
            res["viol"] = v
        elif "witness" in r:
            res["sample"] = [B.to_text(block), r["witness"]]
    return res


def cause_of(v):
    """Which known mechanism explains an infeasible bound (used to keep known findings narrow)."""
    if v["clause"] != "bounds-infeasible":
        return "-"
    uses = {}
    for _i, ins, _o in v["user_instrs"]:
        for x in ins:
            uses[x] = uses.get(x, 0) + 1
    for x in v["spec"]["tgt_ws"]:
        uses[x] = uses.get(x, 0) + 1
    shared_load = any(i.rsplit("_", 1)[0] in ("MLOAD", "SLOAD", "KECCAK256") and o and uses.get(o[0], 0) >= 2
                      for i, _ins, o in v["user_instrs"])
    if v["spec"].get("rules"):
        return "after-rule"
    if shared_load:
        return "shared-load"
    return "unexplained"


def signature(v):
    from .c01 import norm_rule
    ops = sorted({u[0].rsplit("_", 1)[0] for u in v["user_instrs"]})
    rules = ",".join(sorted({norm_rule(r) for r in v["spec"].get("rules", [])}))[:80].replace(" ", "_")
    return "%s;%s;cause=%s;ops=[%s];rules=[%s]" % (v["clause"], v.get("which") or v.get("field"), cause_of(v),
                                                   ",".join(ops), rules)


def hand_blocks():
    P, I = B.P, B.I
    return [[I("DUP1"), P(5), I("ADD"), I("SWAP1"), I("SLOAD")], [P(0), I("MSTORE"), P(0), I("MLOAD")],
            [P(0), I("SSTORE"), P(0), I("SLOAD")], [I("DUP2"), I("MSTORE"), I("DUP1"), I("MLOAD")],
            [I("DUP2"), I("MLOAD"), I("SSTORE"), I("MLOAD")], [I("DUP2"), I("SLOAD"), I("MSTORE"), I("SLOAD")],
            [I("DUP1"), I("MLOAD"), I("DUP1"), I("ADD")], [I("DUP1"), I("SUB")], [P(0), I("AND"), I("ADD")]]


def unit_sets(tier):
    cfgs = [("-greedy",), ("-size", "-greedy"), ("-partition", "-greedy"), ("-storage", "-greedy"),
            ("-pop-uninterpreted", "-greedy")]
    if tier == "quick":
        yield "tree(CORE,3)", list(B.tree(B.CORE, 3)), cfgs[:2]
        yield "tree(MIXED,3)", list(B.tree(B.MIXED, 3)), cfgs[:1] + cfgs[3:4]
        yield "rule-family(1)/4", list(families.rule_family(1))[::4], cfgs[:2]
        yield "mem-family(2)/2", list(families.mem_family(2))[::2], cfgs[:1]
        from .c06 import A6
        yield "tree(A6,3)", list(B.tree(A6, 3, max_need=3)), cfgs[:1]
        yield "hand", hand_blocks(), cfgs[:2]
        yield "vocabulary-family", families.vocabulary_family(), cfgs[:1] + cfgs[3:4]
        yield "split-rule-family", list(families.split_rule_family()), cfgs[:1] + cfgs[3:4] + cfgs[2:3]
    else:
        yield "tree(CORE,4)", list(B.tree(B.CORE, 4)), cfgs
        yield "tree(MIXED,3)", list(B.tree(B.MIXED, 3)), cfgs
        yield "rule-family(1)", list(families.rule_family(1)), cfgs[:2]
        yield "mem-family(2)", list(families.mem_family(2)), cfgs[:4]
        from .c06 import A6
        yield "tree(A6,4)", list(B.tree(A6, 4, max_need=3)), cfgs[:2]
        yield "hand", hand_blocks(), cfgs
        yield "vocabulary-family", families.vocabulary_family(), cfgs
        yield "split-rule-family", list(families.split_rule_family()), cfgs


def main(tier, seed, only=None):
    import os
    os.environ["C16_MAX_B0"] = "5" if tier == "quick" else str(MAX_B0)
    chk = report.Check("C16", "model_checking", tier, seed)
    chk.cov["rule"] = ("specifications of prefix trees / rule / memory families x option sets with init_progr_len <= %d; "
                       "for each, explicit-state uniform-cost search over the reference stack machine bounded by the "
                       "published length and stack bounds (existence of a realizing sequence, witness re-checked by E3) "
                       "and, with unbounded height, below the published minimum lengths (no realizing sequence may be "
                       "shorter); non-trivial = specifications decided" % int(os.environ["C16_MAX_B0"]))
    tot = {"specs": 0, "decided": 0, "undecided": 0, "too_long": 0, "states": 0, "transitions": 0, "raised": 0,
           "budget": 0}
    sets = {}

    def on_r(cfg, block, status, value):
        chk.add("evaluations")
        if status != "ok":
            tot["budget"] += 1
            return
        for k in ("specs", "decided", "undecided", "too_long", "states", "transitions"):
            tot[k] += value[k]
        if value["raised"]:
            tot["raised"] += 1
        if value["viol"]:
            chk.violation(signature(value["viol"]), value["viol"])
        elif "sample" in value and tot["decided"] % 3001 < 2:
            chk.sample({"block": value["sample"][0], "config": list(cfg), "witness": value["sample"][1]})

    for name, units, cs in unit_sets(tier):
        if only and only not in name:
            continue
        sets[name] = {"blocks": len(units), "configs": len(cs)}
        tasks = [(cfg, ch) for cfg in cs for ch in pool.chunks(units, max(200, len(units) // 16 + 1))]
        pool.run_tasks(tasks, work, setup=driver.setup_ctx, unit_timeout=120, on_result=on_r)
    chk.cov.update({"sets": sets, "states": tot["states"], "transitions": tot["transitions"],
                    "traces_validated_against_impl": tot["decided"], "specifications": tot["specs"],
                    "specifications_decided": tot["decided"], "search_capped": tot["undecided"],
                    "beyond_length_bound": tot["too_long"], "frontend_raised": tot["raised"],
                    "skipped_budget": tot["budget"], "distinct_nontrivial": tot["decided"],
                    "explanation": "states/transitions are those of the reference stack machine explored by the "
                                   "uniform-cost search; every found witness is re-validated by the symbolic stack "
                                   "machine (E3) against the specification emitted by the real front-end"})
    if not chk.cov["samples"]:
        chk.sample({"note": "see sets"})
    return chk.finish(guards={"decided": tot["decided"], "states": tot["states"]})


def replay(path):
    w = json.load(open(path))
    from .c01 import parse_text
    res = {}

    def on_r(cfg, unit, status, value):
        res["status"], res["value"] = status, value

    pool.run_tasks([(tuple(w["config"]), [parse_text(w["block"])])], work, setup=driver.setup_ctx, unit_timeout=300,
                   on_result=on_r)
    v = res.get("value")
    print("replay:", res.get("status"), str(v and v.get("viol"))[:300])
    if res.get("status") == "ok" and v.get("viol"):
        print("VIOLATION property=C16 replay=%s" % path)
        return 1
    print("no violation on replay")
    return 0
