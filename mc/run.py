"""Entry point: python -m mc.run <ID> [--tier quick|thorough] [--replay FILE] [--only SUBSTR]"""
import argparse
import importlib
import os
import sys
import traceback

from . import report


def main():
    ap = argparse.ArgumentParser()
    ap.add_argument("prop")
    ap.add_argument("--tier", default=os.environ.get("VERIF_TIER", "quick"))
    ap.add_argument("--replay")
    ap.add_argument("--only")
    a = ap.parse_args()
    seed = int(os.environ.get("VERIF_SEED", "0") or 0)
    mod = importlib.import_module("mc." + a.prop.lower())
    try:
        if a.replay:
            rc = mod.replay(a.replay)
        else:
            kw = {"only": a.only} if a.only else {}
            rc = mod.main(a.tier, seed, **kw)
    except report.Broken as e:
        print("BROKEN-CHECK %s: %s" % (a.prop, e))
        sys.exit(2)
    except Exception:
        traceback.print_exc()
        print("BROKEN-CHECK %s: harness exception" % a.prop)
        sys.exit(2)
    sys.exit(rc)


if __name__ == "__main__":
    main()
