"""C14 -- splitting partitions the block; rebuilding with nothing optimized is identity.

For every enumerated block and each of the three splitting policies: the sub-blocks reported by the front-end,
joined at their shared splitting instruction, equal the block's optimizable instruction sequence; every
specification key is <block>_<i> for a reported sub-block and records that sub-block's instructions; source/target
stack sizes chain; rebuild(B, {}) == rebuild(B, all None) == B; replacing sub-block k changes exactly segment k.
"""
import copy
import itertools
import json

from . import blocks as B
from . import driver, evm_ref as E, pool, report, repo, spec_eval as SE

NAME = "verif_block_0"
POLICIES = [("-greedy",), ("-storage", "-greedy"), ("-partition", "-greedy")]

ALPHA = [B.P(1), B.I("DUP1"), B.I("ADD"), B.I("POP"), B.I("MSTORE"), B.I("SSTORE"), B.I("LOG0"), B.I("CALLDATACOPY"),
         B.I("GAS"), B.I("ASSIGNIMMUTABLE", "a1"), B.I("JUMPI"), B.I("RETURN"), B.I("STOP")]


def plain_tok(ins, push0):
    """The tool's documented plain rendering of one instruction (AsmBytecode.to_plain), written independently."""
    op, arg = ins
    if op == "PUSH":
        if arg == 0 and push0:
            return "PUSH0"
        return "PUSH %X" % arg
    if arg is None or "JUMP" in op:
        return op
    return "%s %s" % (op, arg)


NEVER_SPLITS = {"POP", "ADD", "MUL", "SUB", "DIV", "SDIV", "MOD", "SMOD", "ADDMOD", "MULMOD", "EXP", "SIGNEXTEND", "LT",
                "GT", "SLT", "SGT", "EQ", "ISZERO", "AND", "OR", "XOR", "NOT", "BYTE", "SHL", "SHR", "SAR"} | set(E.ENV0)


def filler_blocks(lengths=range(18, 28), max_special=3):
    kinds = [B.I("MSTORE"), B.I("SSTORE"), B.I("LOG0")]
    for n in lengths:
        for r in range(0, max_special + 1):
            for pos in itertools.combinations(range(n), r):
                blk = []
                for i in range(n):
                    if i in pos:
                        blk.append(kinds[(i + pos.index(i)) % 3])
                    else:
                        blk.append(B.P(1) if i % 2 == 0 else B.I("POP"))
                try:
                    need, _ = E.need_delta(blk)
                except E.BadInstr:
                    continue
                if need <= 12:
                    yield blk


def deep_blocks(heights=range(0, 18)):
    """Splitting instructions met at every stack height around the one- to two-digit boundary of the stack-variable
    index (s(9)/s(10)): the height is reached by pushes, by reading the initial stack (DUPk) or by both."""
    splits = [[B.I("LOG0")], [B.I("LOG1")], [B.I("LOG2")], [B.I("MSTORE")], [B.I("SSTORE")], [B.I("CALLDATACOPY")],
              [B.I("ASSIGNIMMUTABLE", "a1")], [B.I("GAS")], [B.I("CALLER"), B.I("BALANCE")],
              [B.P(0x20), B.P(0), B.I("LOG1")], [B.P(0), B.I("DUP1"), B.I("LOG0")]]
    tails = [[], [B.I("ADD")], [B.I("DUP1"), B.I("ADD")], [B.I("POP"), B.I("POP")]]
    seen = set()
    for h in heights:
        pres = [[B.P(i + 2) for i in range(h)]]
        if 1 <= h <= 16:
            pres.append([B.I("DUP%d" % h)])
            pres.append([B.I("SWAP%d" % h)])
            pres.append([B.I("DUP%d" % h), B.I("DUP%d" % h)])
        if 3 <= h:
            pres.append([B.P(i + 2) for i in range(h - 2)] + [B.I("DUP%d" % min(16, h))])
        for pre in pres:
            for sp in splits:
                for tl in tails:
                    blk = pre + sp + tl
                    try:
                        E.need_delta(blk)
                    except (E.BadInstr, E.Underflow):
                        continue
                    t = tuple(blk)
                    if t not in seen:
                        seen.add(t)
                        yield blk


def check_block(ctx, block):
    """Returns a violation dict or None."""
    push0 = ctx.push0
    with repo.quiet():
        ab = driver.build_one(block)
        ab.set_block_name(NAME)
        try:
            d, subs = ctx.G.compute_original_sfs_with_simplifications(ab, ctx.params)
        except (repo.UnitTimeout, MemoryError):
            raise
        except Exception as e:
            return {"clause": "frontend-raised", "detail": str(e)[:100]}, None
        specs = copy.deepcopy(d["syrup_contract"])
        subs = copy.deepcopy(subs)
    pre, body, post = SE.split_block(block)
    body_txt = [plain_tok(i, push0) for i in body]
    # -- join(subs) == optimizable(B)
    joined = []
    for i, sub in enumerate(subs):
        if i == 0:
            joined.extend(sub)
        else:
            if not joined or sub[0] != joined[-1]:
                return {"clause": "split-instruction-not-shared", "index": i, "subs": subs}, None
            op = sub[0].split(" ")[0]
            if op in NEVER_SPLITS or op.startswith(("DUP", "SWAP", "PUSH")):
                # sub-blocks meet at their shared SPLITTING instruction: under no policy is a stack operation or a
                # pure computation one
                return {"clause": "joined-at-non-splitting-instruction", "index": i, "instruction": sub[0],
                        "subs": subs}, None
            joined.extend(sub[1:])
    notes = []
    if joined != body_txt:
        # known representation gap: the sub-block list renders ASSIGNIMMUTABLE without its operand
        relaxed = [t.split(" ")[0] if t.startswith("ASSIGNIMMUTABLE") else t for t in body_txt]
        if joined == relaxed:
            notes.append({"clause": "join-differs-assignimmutable-operand", "joined": joined, "expected": body_txt})
            subs_cmp = relaxed
        else:
            return {"clause": "join-differs", "joined": joined, "expected": body_txt}, None
    # -- get_subblocks agrees with the specification path
    with repo.quiet():
        import sfs_generator.ir_block as ir_block
        subs2 = ir_block.get_subblocks({"instructions": list(body_txt), "input": ab.source_stack},
                                       storage=ctx.params.split_storage, part=ctx.params.split_partition)
    if subs2 != subs:
        return {"clause": "get_subblocks-differs", "subs": subs, "get_subblocks": subs2}, None
    # -- keys and recorded instructions, stack sizes
    inner = []
    for i, sub in enumerate(subs):
        seg = list(sub)
        if i > 0:
            seg = seg[1:]
        if i < len(subs) - 1:
            seg = seg[:-1]
        inner.append(seg)
    segs = SE.segments(body, subs)
    for key, sfs in specs.items():
        if not key.startswith(NAME + "_"):
            return {"clause": "bad-key", "key": key}, None
        try:
            idx = int(key[len(NAME) + 1:])
        except ValueError:
            return {"clause": "bad-key", "key": key}, None
        if not 0 <= idx < len(subs):
            return {"clause": "key-out-of-range", "key": key, "n_subs": len(subs)}, None
        if sfs.get("original_instrs", "").split() != " ".join(inner[idx]).split():
            return {"clause": "original_instrs-differs", "key": key, "recorded": sfs.get("original_instrs"),
                    "expected": " ".join(inner[idx])}, None
        need, delta = E.need_delta(segs[idx][0])
        # the specification may read a smaller window than the static need (DUPk POP pairs cancel), never a larger
        # one, and it must change the height by the segment's delta
        if len(sfs["src_ws"]) > need:
            return {"clause": "src_ws-size", "key": key, "src_ws": sfs["src_ws"], "need": need}, None
        if len(sfs["tgt_ws"]) - len(sfs["src_ws"]) != delta:
            return {"clause": "tgt_ws-size", "key": key, "tgt": len(sfs["tgt_ws"]), "src": len(sfs["src_ws"]),
                    "delta": delta}, None
    # every non-empty optimizable segment should have a specification (a missing one is legal: it is simply not
    # optimized) -- counted, not demanded
    missing = sum(1 for i, seg in enumerate(inner) if seg and ("%s_%d" % (NAME, i)) not in specs)
    # heights chain: the stack left by segment i (and its split instruction) is at least what segment i+1 reads
    h = E.need_delta(body)[0]
    for i, (seg, split) in enumerate(segs):
        need, delta = E.need_delta(seg)
        if need > h:
            return {"clause": "chain-height", "index": i, "height": h, "need": need}, None
        h += delta
        if split is not None:
            pops, pushes = E.ARITY[split[0]]
            if pops > h:
                return {"clause": "chain-height-split", "index": i}, None
            h += pushes - pops
    # -- rebuild
    from solution_generation.optimize_from_sub_blocks import rebuild_optimized_asm_block
    from sfs_generator.asm_bytecode import AsmBytecode
    orig_json = ab.to_json()
    names = ["%s_%d" % (NAME, i) for i in range(len(subs))]
    for label, mapping in (("empty", {}), ("all-none", {n: None for n in names})):
        with repo.quiet():
            nb = rebuild_optimized_asm_block(ab, copy.deepcopy(subs), mapping)
        if nb.to_json() != orig_json:
            return {"clause": "rebuild-identity-" + label, "got": nb.to_json(), "expected": orig_json}, None
    marker = [AsmBytecode(-1, -1, -1, "CALLER", None), AsmBytecode(-1, -1, -1, "POP", None)]
    marker_json = [m.to_json() for m in marker]
    # expected layout from my own segmentation
    all_items = orig_json
    n_pre = len(pre)
    for k in range(len(subs)):
        with repo.quiet():
            nb = rebuild_optimized_asm_block(ab, copy.deepcopy(subs), {names[k]: list(marker)})
        exp = list(all_items[:n_pre])
        pos = n_pre
        for i, (seg, split) in enumerate(segs):
            if i == k:
                exp.extend(marker_json)
            else:
                exp.extend(all_items[pos:pos + len(seg)])
            pos += len(seg)
            if split is not None:
                exp.append(all_items[pos])
                pos += 1
        exp.extend(all_items[pos:])
        if nb.to_json() != exp:
            return {"clause": "rebuild-replace", "k": k, "got": nb.to_json(), "expected": exp}, None
    return (notes[0] if notes else None), {"subs": len(subs), "specs": len(specs), "missing_specs": missing}


def work(ctx, block):
    try:
        v, st = check_block(ctx, block)
    except (repo.UnitTimeout, MemoryError):
        raise
    except AssertionError as e:
        v, st = {"clause": "rebuild-assertion", "detail": str(e)[:100]}, None
    except (IndexError, KeyError, TypeError, ValueError, AttributeError) as e:
        import traceback
        tb = traceback.format_exc()
        if "/mc/" in tb.splitlines()[-3] if len(tb.splitlines()) >= 3 else False:
            raise
        v, st = {"clause": "tool-raised-%s" % type(e).__name__, "detail": tb[-500:]}, None
    except SE.SpecError as e:
        v, st = {"clause": "segmentation", "detail": str(e)[:200]}, None
    if v:
        v["block"] = B.to_text(block)
        v["config"] = list(ctx.cfg)
    return {"viol": v, "stats": st}


def long_filler_blocks(lengths=(40, 49)):
    """Blocks about twice the partition threshold with three or four stores/splits whose distances cross the
    threshold in every combination (short-long, long-short, long-long): the running offset of the splitter is only
    exercised when a split follows a long gap."""
    kinds = [B.I("MSTORE"), B.I("SSTORE"), B.I("LOG0")]
    seen = set()
    for n in lengths:
        for a in (0, 1, 2, 5):
            for g1 in (1, 5, 21, 22, 23, 25):
                for g2 in (1, 3, 10, 21, 22, 23):
                    for g3 in (None, 2, 22):
                        pos = [a, a + g1, a + g1 + g2] + ([a + g1 + g2 + g3] if g3 else [])
                        if pos[-1] >= n:
                            continue
                        blk = []
                        for i in range(n):
                            if i in pos:
                                blk.append(kinds[(i + pos.index(i)) % 3])
                            else:
                                blk.append(B.P(1) if i % 2 == 0 else B.I("POP"))
                        try:
                            need, _ = E.need_delta(blk)
                        except E.BadInstr:
                            continue
                        if need <= 12 and tuple(blk) not in seen:
                            seen.add(tuple(blk))
                            yield blk


def _vocab():
    from . import families
    return families.vocabulary_family()


def unit_sets(tier):
    if tier == "quick":
        yield "tree(SPLIT13,4)", list(B.tree(ALPHA, 4, max_need=8))
        yield "filler(18..27,<=2)", list(filler_blocks(range(18, 28), 2))
        yield "filler(21..24,3)", [b for b in filler_blocks(range(21, 25), 3)]
        yield "deep-stack", list(deep_blocks())
        yield "long-filler(40)", list(long_filler_blocks((40,)))
        yield "vocabulary-family", _vocab()
    else:
        yield "tree(SPLIT13,5)", list(B.tree(ALPHA, 5, max_need=8))
        yield "filler(18..27,<=3)", list(filler_blocks(range(18, 28), 3))
        yield "deep-stack", list(deep_blocks(list(range(0, 40)) + [98, 99, 100, 101, 102]))
        yield "long-filler(40,49)", list(long_filler_blocks((40, 49)))
        yield "vocabulary-family", _vocab()


def main(tier, seed, only=None):
    chk = report.Check("C14", "exploration", tier, seed)
    chk.cov["rule"] = ("prefix tree over 13 symbols with every kind of splitting/terminal/store instruction, and filler "
                       "blocks of length 18..27 with stores/splits at every subset of positions, x 3 policies; "
                       "non-trivial = blocks that are split into at least two sub-blocks")
    tot = {"blocks": 0, "split": 0, "raised": 0, "budget": 0, "subs": 0, "specs": 0, "missing": 0}
    sets = {}

    def on_result(cfg, block, status, value):
        chk.add("evaluations")
        if status != "ok":
            tot["budget"] += 1
            lst = chk.cov.setdefault("not_ok", [])
            if len(lst) < 10:
                lst.append([B.to_text(block), list(cfg), status, str(value)[-600:]])
            return
        tot["blocks"] += 1
        v = value["viol"]
        if v:
            if v["clause"] == "frontend-raised":
                tot["raised"] += 1
                return
            chk.violation("%s;%s" % (v["clause"], "+".join(c for c in cfg if c != "-greedy") or "default"), v)
            if value["stats"] is None:
                return
        st = value["stats"]
        tot["subs"] += st["subs"]
        tot["specs"] += st["specs"]
        tot["missing"] += st["missing_specs"]
        if st["subs"] >= 2:
            tot["split"] += 1
            if tot["split"] % 4001 == 1:
                chk.sample({"block": B.to_text(block), "config": list(cfg), "sub_blocks": st["subs"]})

    for name, units in unit_sets(tier):
        if only and only not in name:
            continue
        sets[name] = len(units)
        tasks = [(cfg, ch) for cfg in POLICIES for ch in pool.chunks(units, max(300, len(units) // 16 + 1))]
        pool.run_tasks(tasks, work, setup=driver.setup_ctx, unit_timeout=30, on_result=on_result)
    chk.cov.update({"sets": sets, "blocks_checked": tot["blocks"], "blocks_split": tot["split"],
                    "sub_blocks": tot["subs"], "specifications": tot["specs"],
                    "nonempty_segments_without_spec": tot["missing"], "frontend_raised": tot["raised"],
                    "skipped_budget": tot["budget"], "distinct_nontrivial": tot["split"]})
    return chk.finish(guards={"blocks_split": tot["split"]})


def replay(path):
    w = json.load(open(path))
    from .c01 import parse_text
    res = {}

    def on_r(cfg, unit, status, value):
        res["status"], res["value"] = status, value

    pool.run_tasks([(tuple(w["config"]), [parse_text(w["block"])])], work, setup=driver.setup_ctx, unit_timeout=60,
                   on_result=on_r)
    v = res.get("value")
    if res.get("status") == "ok" and v["viol"] and v["viol"]["clause"] != "frontend-raised":
        print("VIOLATION property=C14 replay=%s" % path)
        print("  clause:", v["viol"]["clause"])
        return 1
    print("no violation on replay (%s)" % res.get("status"))
    return 0
