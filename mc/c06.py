"""C06 -- every model of the Max-SMT encoding decodes to a realizing sequence; the emitted text is well formed.

Instances: specifications of a prefix tree over a 10-symbol alphabet with small bounds x encoder option sets
(deviation bounded).  For each emitted .smt2: static well-formedness (every symbol declared once and used at its
declared arity/sorts), then ALL projected models are enumerated (E5) and every one is decoded through the tool's
own model reader and executed on the symbolic stack machine (E3) within the declared bounds.
"""
import json
import os

from . import sm_search, blocks as B
from . import driver, pool, report, repo, smt_enum, sym_ref

NAME = "verif_block_0"
A6 = [B.P(1), B.I("DUP1"), B.I("SWAP1"), B.I("POP"), B.I("ADD"), B.I("SUB"), B.I("ISZERO"), B.I("MSTORE"),
      B.I("MLOAD"), B.I("SSTORE")]

SINGLE = [("-term-encoding", "int"), ("-term-encoding", "stack_vars"), ("-term-encoding", "uninterpreted_int"),
          ("-empty",), ("-push-basic",), ("-pop-uninterpreted",), ("-memory-encoding", "l_vars"), ("-order-bounds",),
          ("-order-conflicts",), ("-at-most",), ("-pushed-once",), ("-no-output-before-pop",)]


def encoder_configs(dev):
    out = [()]
    if dev >= 1:
        out += [tuple(s) for s in SINGLE]
    if dev >= 2:
        for i in range(len(SINGLE)):
            for j in range(i + 1, len(SINGLE)):
                a, b = SINGLE[i], SINGLE[j]
                if a[0] == b[0] == "-term-encoding":
                    continue
                out.append(tuple(a + b))
    return out


def hand_instances():
    """Specifications with dependency edges of each kind come from blocks below (front-end generated)."""
    P, I = B.P, B.I
    return [
        [I("DUP2"), I("DUP2"), I("MSTORE"), I("SWAP1"), I("POP"), I("MLOAD")],
        [I("DUP1"), I("MLOAD"), I("SWAP1"), I("MSTORE")],
        [P(1), P(2), I("SSTORE"), P(2), I("SLOAD")],
        [I("DUP1"), I("SLOAD"), I("SWAP1"), I("SSTORE")],
        [P(0), P(0), I("MSTORE"), P(32), P(0), I("KECCAK256")],
        [I("DUP2"), I("MSTORE"), I("DUP1"), I("MSTORE")],
        [I("MLOAD"), I("MLOAD")],
        [P(1), I("DUP1"), I("ADD"), I("DUP1"), I("MUL")],
        # the operands of the LATER operation are already on top of the initial stack, so the forbidden order is the
        # cheap one (a missing ordering constraint shows as a model that runs the later operation first)
        [I("SWAP2"), I("MLOAD"), I("SWAP2"), I("MSTORE")],
        [I("SWAP2"), I("SLOAD"), I("SWAP2"), I("SSTORE")],
        [I("SWAP2"), I("SWAP1"), I("SWAP3"), I("SWAP1"), I("MSTORE"), I("MSTORE")],
        [I("SWAP2"), I("SWAP1"), I("SWAP3"), I("SWAP1"), I("SSTORE"), I("SSTORE")],
        [I("SWAP2"), I("SWAP1"), I("MSTORE"), I("MLOAD")],
        [I("SWAP2"), I("SWAP1"), I("SSTORE"), I("SLOAD")],
        [I("SWAP3"), I("SWAP1"), I("SWAP2"), I("MSTORE"), P(32), I("SWAP1"), I("KECCAK256")],
        [I("SWAP1"), I("DUP1"), I("MLOAD"), I("SWAP2"), I("SWAP1"), I("MSTORE8")],
        # chains load -> store -> load in which the second load's ADDRESS is the first load's result and the first
        # address comes from an instruction (a PUSH), not from the initial stack: the ordering tuples that are implied
        # by data flow are pruned, the others must stay
        [P(0x40), I("MLOAD"), I("SWAP2"), I("MSTORE"), I("MLOAD")],
        [P(1), I("SLOAD"), I("SWAP2"), I("SSTORE"), I("SLOAD")],
        [P(0x40), I("MLOAD"), I("SWAP2"), I("MSTORE8"), I("MLOAD")],
        [P(0x40), I("MLOAD"), I("DUP1"), I("SWAP3"), I("MSTORE"), I("MLOAD")],
        [P(0), I("MLOAD"), I("MLOAD"), I("SWAP2"), I("MSTORE")],
        [P(0), I("MLOAD"), I("SWAP2"), I("MSTORE"), P(0), I("MLOAD")],
    ]


def setup(cfg):
    ctx = driver.Ctx(cfg)
    return ctx


def encode(ctx, key, sfs, solver="oms"):
    from smt_encoding.block_optimizer import BlockOptimizer
    ctx.params.smt_solver = solver
    with repo.quiet():
        bo = BlockOptimizer(key, sfs, ctx.params, 2)
        bo.generate_intermediate_files()
    return bo, open(bo._encoding_file).read()


def decode(bo, prob, A, style="oms"):
    bo._solver._model = smt_enum.model_text(prob, A, style)
    with repo.quiet():
        return bo._rebuild_block_from_solver()


def check_instance(ctx, key, sfs, limits):
    res = {"status": "ok", "projections": 0, "nodes": 0, "assignments": 0, "viol": None, "decoded": 0}
    if sfs["init_progr_len"] > limits["b0"] or sfs["max_sk_sz"] > limits["bs"] or sfs["init_progr_len"] < 1:
        res["status"] = "out-of-bounds"
        return res
    try:
        bo, text = encode(ctx, key, sfs)
    except (repo.UnitTimeout, MemoryError):
        raise
    except Exception as e:
        res["status"] = "encoding-failed"
        res["detail"] = "%s: %s" % (type(e).__name__, str(e)[:100])
        return res
    try:
        prob = smt_enum.Problem(text)
    except smt_enum.SmtError as e:
        res["viol"] = {"clause": "text-not-parsable", "detail": str(e)}
        return res
    wf = prob.wellformed()
    if wf:
        res["viol"] = {"clause": "ill-formed-text", "detail": wf[:4]}
        return res
    en = smt_enum.Enumerator(prob, node_cap=limits["nodes"])
    try:
        projs = en.projections()
    except smt_enum.SmtError as e:
        res["viol"] = {"clause": "text-not-evaluable", "detail": str(e)}
        return res
    res["nodes"], res["assignments"] = en.nodes, en.assignments
    if en.cap_hit:
        res["status"] = "node-cap"
    res["projections"] = len(projs)
    b0, bs = sfs["init_progr_len"], sfs["max_sk_sz"]
    z3bo = None
    for n, (proj, (A, cost)) in enumerate(sorted(projs.items(), key=lambda kv: str(kv[0]))):
        try:
            ids = decode(bo, prob, A)
        except (repo.UnitTimeout, MemoryError):
            raise
        except Exception as e:
            res["viol"] = {"clause": "model-not-decodable", "projection": [str(x) for x in proj],
                           "detail": "%s: %s" % (type(e).__name__, str(e)[:100])}
            return res
        res["decoded"] += 1
        bad = sym_ref.realizes(sfs, ids, max_len=b0, max_height=bs, check_bounds=True)
        if bad is not None:
            res["viol"] = {"clause": "model-" + str(bad[0]), "ids": ids, "why": [str(x) for x in bad],
                           "projection": [str(x) for x in proj]}
            return res
        if n % 7 == 0:
            # the z3 reader must decode the same model to the same sequence
            try:
                if z3bo is None:
                    z3bo, _t = encode(ctx, key + "_z3", sfs, solver="z3")
                ids2 = decode(z3bo, prob, A, style="z3")
            except (repo.UnitTimeout, MemoryError):
                raise
            except Exception as e:
                res["viol"] = {"clause": "z3-reader-failed", "detail": "%s: %s" % (type(e).__name__, str(e)[:100])}
                return res
            if ids2 != ids:
                res["viol"] = {"clause": "readers-disagree", "oms": ids, "z3": ids2}
                return res
    return res


def long_instances():
    """Blocks whose specification needs 11..13 positions and a stack of 5..7 cells: too large to enumerate every
    model, large enough for two-digit position and instruction indexes (t_10, theta_10, ...)."""
    P, I = B.P, B.I
    return [
        [I("DUP2"), I("ADD"), I("DUP3"), I("MUL"), I("DUP4"), I("SUB"), I("SWAP1"), I("POP"), I("SWAP2"), I("DUP3"),
         I("XOR"), I("SWAP1")],
        [I("DUP1"), I("DUP3"), I("ADD"), I("DUP2"), I("DUP5"), I("MUL"), I("SWAP4"), I("SUB"), I("SWAP2"), I("AND"),
         I("DUP2"), I("OR"), I("SWAP1")],
        [P(1), I("DUP2"), I("ADD"), P(2), I("DUP4"), I("MUL"), I("SWAP3"), I("SWAP1"), I("SUB"), I("SWAP2"),
         I("ISZERO"), I("SWAP1")],
        [I("DUP3"), I("DUP3"), I("MSTORE"), I("DUP1"), I("MLOAD"), I("DUP3"), I("ADD"), I("SWAP3"), I("SWAP1"),
         I("SSTORE"), I("DUP1"), I("SWAP2"), I("SUB")],
    ]


def work_long(ctx, block):
    """A known realizing sequence (explicit-state search) is completed into a full model of the emitted text by the
    enumerator with t_0..t_b0-1 fixed; the model is printed in three definition orders and both solver styles and
    every print-out is decoded by the tool's reader."""
    out = {"instances": 0, "decoded": 0, "nodes": 0, "assignments": 0, "viol": None, "witness_rejected": 0, "skipped": 0}
    try:
        specs, _ = driver.specs_for(ctx, block, name=NAME)
    except (repo.UnitTimeout, MemoryError):
        raise
    except Exception:
        out["skipped"] += 1
        return out
    for key, sfs in specs.items():
        b0, bs = sfs["init_progr_len"], sfs["max_sk_sz"]
        r = sm_search.search(sfs, b0, bs, node_cap=2000000)
        if not r["found"]:
            out["skipped"] += 1
            continue
        try:
            bo, text = encode(ctx, key, sfs)
            z3bo, _t = encode(ctx, key + "_z3", sfs, solver="z3")
            prob = smt_enum.Problem(text)
        except (repo.UnitTimeout, MemoryError):
            raise
        except Exception as e:
            out["skipped"] += 1
            continue
        en = smt_enum.Enumerator(prob, node_cap=400000)
        by_id = {ins.id: th for th, ins in bo._full_encoding.theta_to_instr.items()}
        ids = list(r["ids"]) + ["NOP"] * (b0 - len(r["ids"]))
        try:
            fixed = [en.const_value("theta_%d" % by_id[i] if ("theta_%d" % by_id[i]) in prob.decls else str(by_id[i]))
                     for i in ids]
        except KeyError:
            out["skipped"] += 1
            continue
        A = None
        for _proj, A in en.models(fixed_t=fixed):
            break
        out["nodes"] += en.nodes
        out["assignments"] += en.assignments
        if A is None:
            out["witness_rejected"] += 1
            continue
        out["instances"] += 1
        for order in ("decl", "sorted", "reverse"):
            for style, reader in (("oms", bo), ("z3", z3bo)):
                reader._solver._model = smt_enum.model_text(prob, A, style, order)
                try:
                    with repo.quiet():
                        got = reader._rebuild_block_from_solver()
                except (repo.UnitTimeout, MemoryError):
                    raise
                except Exception as e:
                    out["viol"] = {"clause": "model-not-decodable", "detail": "%s: %s" % (type(e).__name__, str(e)[:100]),
                                   "reader": style, "print_order": order}
                    break
                out["decoded"] += 1
                bad = sym_ref.realizes(sfs, got, max_len=b0, max_height=bs, check_bounds=True)
                if bad is not None:
                    out["viol"] = {"clause": "model-" + str(bad[0]), "ids": got, "model_ids": ids, "reader": style,
                                   "print_order": order, "why": [str(x) for x in bad]}
                    break
            if out["viol"]:
                break
        if out["viol"]:
            out["viol"].update({"block": B.to_text(block), "config": list(ctx.cfg), "spec_key": key, "b0": b0, "bs": bs,
                                "long": True})
            break
    return out


def work(ctx, unit):
    block, limits = unit
    if limits == "long":
        return work_long(ctx, block)
    out = {"instances": 0, "projections": 0, "decoded": 0, "nodes": 0, "assignments": 0, "status": {}, "viol": None,
           "multi": 0}
    try:
        specs, _ = driver.specs_for(ctx, block, name=NAME)
    except (repo.UnitTimeout, MemoryError):
        raise
    except Exception:
        out["status"]["spec-failed"] = 1
        return out
    for key, sfs in specs.items():
        r = check_instance(ctx, key, sfs, limits)
        out["status"][r["status"]] = out["status"].get(r["status"], 0) + 1
        if r["status"] in ("ok", "node-cap"):
            out["instances"] += 1
            out["projections"] += r["projections"]
            out["decoded"] += r["decoded"]
            out["nodes"] += r["nodes"]
            out["assignments"] += r["assignments"]
            if r["projections"] > 1:
                out["multi"] += 1
        if r["viol"] and out["viol"] is None:
            v = r["viol"]
            v.update({"block": B.to_text(block), "config": list(ctx.cfg), "spec_key": key,
                      "b0": sfs["init_progr_len"], "bs": sfs["max_sk_sz"]})
            out["viol"] = v
    return out


def signature(v):
    import re
    d = v.get("detail")
    d = re.sub(r"[0-9]+", "N", str(d))[:80] if d else ""
    if not d and v["clause"] == "model-unknown-id":
        d = "id=" + str(v.get("why", ["", "", "?"])[2])
    return "%s;%s;%s" % (v["clause"], " ".join(v["config"]) or "default", d)


def main(tier, seed, only=None):
    chk = report.Check("C06", "model_checking", tier, seed)
    quick = tier == "quick"
    depth = 3 if quick else 4
    limits = {"b0": 4 if quick else 5, "bs": 4, "nodes": 60000 if quick else 400000}
    cfgs = encoder_configs(1 if quick else 2)
    chk.cov["rule"] = ("instances = specifications of tree(A6, depth %d) + 8 blocks with every kind of dependency edge, "
                       "with init_progr_len <= %d and max_sk_sz <= %d, x %d encoder option sets (<= %d deviations); "
                       "for each emitted .smt2 ALL projections onto (t_0..t_b0-1) of its models are enumerated by a "
                       "finite-domain search over the text and each is decoded through BlockOptimizer's reader and "
                       "executed on the symbolic stack machine; non-trivial = instances with more than one projected "
                       "model" % (depth, limits["b0"], limits["bs"], len(cfgs), 1 if quick else 2))
    chk.assumptions = ["uninterpreted sorts are interpreted in the term algebra (a model of the emitted `distinct`)",
                       "the content of an unoccupied stack cell is represented by one junk value (every constraint of "
                       "the encoding guards cell contents by the occupancy flag)",
                       "the enumerator is cross-validated against z3 on dumped instances by tools/z3_cross.py"]
    blocks = list(B.tree(A6, depth, max_need=3)) + hand_instances()
    tot = {"instances": 0, "projections": 0, "decoded": 0, "nodes": 0, "assignments": 0, "multi": 0, "budget": 0}
    status = {}

    def on_r(cfg, unit, st, value):
        chk.add("evaluations")
        if st != "ok":
            tot["budget"] += 1
            lst = chk.cov.setdefault("skipped_budget_list", [])
            if len(lst) < 10:
                lst.append([B.to_text(unit[0]), list(cfg), st])
            return
        for k in ("instances", "projections", "decoded", "nodes", "assignments", "multi"):
            tot[k] += value[k]
        for k, n in value["status"].items():
            status[k] = status.get(k, 0) + n
        if value["viol"]:
            chk.violation(signature(value["viol"]), value["viol"])
        elif value["multi"] and tot["multi"] % 500 == 1:
            chk.sample({"block": B.to_text(unit[0]), "config": list(cfg), "projected_models": value["projections"]})

    nh = len(hand_instances())
    units = [(b, limits) for b in blocks[:-nh]] + [(b, dict(limits, b0=6, bs=5, nodes=150000)) for b in blocks[-nh:]]
    tasks = []
    shallow = None
    if not quick:
        # the full product (depth-4 tree x 76 option sets) is ~11 h of enumeration: two-deviation option sets run on
        # the depth-3 tree (+ all hand instances), zero/one-deviation sets on the depth-4 tree
        small = set(map(lambda b: B.to_text(b), B.tree(A6, 3, max_need=3)))
        shallow = [u for u in units[:-nh] if B.to_text(u[0]) in small] + units[-nh:]
        chk.cov["rule"] += ("; thorough: option sets with two deviations are explored on the depth-3 tree and the hand "
                            "instances only (%d blocks), the others on the full depth-4 tree" % len(shallow))
    one_dev = set(encoder_configs(1))
    for cfg in cfgs:
        us = units if (quick or cfg in one_dev) else shallow
        if "-empty" in cfg:
            # without occupancy flags the enumerator has to branch on every cell: keep these instances tiny
            us = [(b, dict(limits, b0=2, nodes=6000)) for b, _l in us]
        elif False:
            pass
        for ch in pool.chunks(us, max(60, len(us) // 8 + 1)):
            tasks.append((cfg, ch))
    # -empty once more, one position longer, on stores next to pushes: the value that stands for "empty cell" is
    # numbered after the values of the instructions, so instructions without output next to instructions with output
    # are where the numbering can collide; a third position is needed to leave a copy behind
    alpha_e = [B.P(1), B.P(2), B.I("POP"), B.I("DUP1"), B.I("SSTORE"), B.I("MSTORE")]
    eblocks = [b for b in B.tree(alpha_e, 4, max_need=2)
               if any(o in ("SSTORE", "MSTORE") for o, _ in b) and any(o == "PUSH" for o, _ in b)]
    ecfgs = [("-empty",)] + [("-term-encoding", t, "-empty") for t in ("int", "stack_vars", "uninterpreted_int")]
    for cfg in ecfgs:
        for ch in pool.chunks([(b, dict(limits, b0=3, bs=3, nodes=20000)) for b in eblocks], 31):
            tasks.append((cfg, ch))
    chk.cov["empty_store_push_instances"] = {"blocks": len(eblocks), "configs": [list(c) for c in ecfgs], "b0": 3}
    pool.run_tasks(tasks, work, setup=setup, unit_timeout=60, on_result=on_r)
    # ---- long instances: one constructed model each, all print orders, both readers
    lstat = {"instances": 0, "decoded": 0, "witness_rejected": 0, "skipped": 0}

    def on_l(cfg, unit, st, value):
        chk.add("evaluations")
        if st != "ok":
            tot["budget"] += 1
            return
        for k in lstat:
            lstat[k] += value[k]
        tot["decoded"] += value["decoded"]
        tot["nodes"] += value["nodes"]
        tot["assignments"] += value["assignments"]
        if value["viol"]:
            v = value["viol"]
            chk.violation("long;%s;%s;reader=%s;order=%s" % (v["clause"], " ".join(v["config"]) or "default",
                                                             v.get("reader"), v.get("print_order")), v)

    lcfgs = [c for c in cfgs if "-empty" not in c and "-push-basic" not in c]
    pool.run_tasks([(cfg, [(b, "long")]) for cfg in lcfgs for b in long_instances()], work, setup=setup,
                   unit_timeout=600, on_result=on_l)
    chk.cov["long_instances"] = lstat
    chk.cov.update({"states": max(tot["nodes"], 1), "transitions": max(tot["assignments"], 1),
                    "traces_validated_against_impl": tot["decoded"], "instances": tot["instances"],
                    "projected_models": tot["projections"], "instances_with_several_models": tot["multi"],
                    "instance_status": status, "configs": [list(c) for c in cfgs], "blocks": len(blocks),
                    "skipped_budget": tot["budget"], "distinct_nontrivial": tot["multi"],
                    "explanation": "states = search nodes of the model enumerator, transitions = variable assignments; "
                                   "every projected model is replayed through the implementation's model reader"})
    if not chk.cov["samples"]:
        chk.sample({"note": "no instance with several models"})
    return chk.finish(guards={"projected_models": tot["projections"], "decoded": tot["decoded"]})


def replay(path):
    w = json.load(open(path))
    from .c01 import parse_text
    res = {}

    def on_r(cfg, unit, status, value):
        res["status"], res["value"] = status, value

    limits = {"b0": 6, "bs": 6, "nodes": 400000}
    pool.run_tasks([(tuple(w["config"]), [(parse_text(w["block"]), limits)])], work, setup=setup, unit_timeout=600,
                   on_result=on_r)
    v = res.get("value")
    print("replay:", res.get("status"), str(v and v.get("viol"))[:300])
    if res.get("status") == "ok" and v.get("viol"):
        print("VIOLATION property=C06 replay=%s" % path)
        return 1
    print("no violation on replay")
    return 0
