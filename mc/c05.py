"""C05 -- the built-in equivalence checker never accepts distinguishable blocks; reflexive and exception-free.

Blocks x ALL single-point semantic mutations; a pair the reference EVM can distinguish must not be accepted by
gasol_asm.compare_asm_block_asm_format.  compare(B, B) must be (True, _) and must not raise.
"""
import json

from . import blocks as B
from . import driver, evm_ref as E, pool, report, families, repo

SUBST = [("DIV", "SDIV"), ("MOD", "SMOD"), ("LT", "SLT"), ("GT", "SGT"), ("LT", "GT"), ("SLT", "SGT"),
         ("SHR", "SAR"), ("SHL", "SHR"), ("ADD", "SUB"), ("AND", "OR"), ("OR", "XOR"), ("MSTORE", "MSTORE8"),
         ("MUL", "DIV"), ("EQ", "LT"), ("ISZERO", "NOT"), ("SLOAD", "MLOAD"), ("SSTORE", "MSTORE"),
         ("ADDMOD", "MULMOD"), ("EXP", "MUL"), ("BYTE", "SHR"), ("SIGNEXTEND", "BYTE"),
         ("CALLER", "ORIGIN"), ("ADDRESS", "CALLER"), ("CALLVALUE", "CALLDATASIZE"), ("TIMESTAMP", "NUMBER")]
SUB_MAP = {}
for a, b in SUBST:
    SUB_MAP.setdefault(a, []).append(b)
    SUB_MAP.setdefault(b, []).append(a)
NONCOMM2 = {"SUB", "DIV", "SDIV", "MOD", "SMOD", "EXP", "LT", "GT", "SLT", "SGT", "BYTE", "SHL", "SHR", "SAR",
            "SIGNEXTEND", "MSTORE", "MSTORE8", "SSTORE", "KECCAK256"}
STORES = {"MSTORE", "MSTORE8", "SSTORE"}


def mutants(block):
    """All single-point mutations of a block: (label, mutated block)."""
    n = len(block)
    for i, (op, arg) in enumerate(block):
        pre, post = block[:i], block[i + 1:]
        if op in SUB_MAP:
            for o2 in SUB_MAP[op]:
                yield "subst:%s->%s" % (op, o2), pre + [(o2, None)] + post
        if E.ARITY.get(op, (0, 0))[0] == 2:
            yield "swap-operands:%s" % op, pre + [("SWAP1", None), (op, arg)] + post
        if op == "PUSH":
            for v in {(arg + 1) & E.MASK, (arg - 1) & E.MASK, 0, E.MASK} - {arg}:
                yield "const:%s" % ("+1" if v == (arg + 1) & E.MASK else "-1" if v == (arg - 1) & E.MASK else
                                    "0" if v == 0 else "max"), pre + [("PUSH", v)] + post
        if op.startswith("DUP"):
            k = int(op[3:])
            for k2 in (k - 1, k + 1):
                if 1 <= k2 <= 16:
                    yield "dup-index", pre + [("DUP%d" % k2, None)] + post
        if op.startswith("SWAP"):
            k = int(op[4:])
            for k2 in (k - 1, k + 1):
                if 1 <= k2 <= 16:
                    yield "swap-index", pre + [("SWAP%d" % k2, None)] + post
        if op in STORES:
            # drop the store (its operands are popped instead), duplicate it
            yield "drop-store:%s" % op, pre + [("POP", None), ("POP", None)] + post
            yield "dup-store:%s" % op, pre + [("DUP2", None), ("DUP2", None), (op, arg), (op, arg)] + post
        if op in ("MLOAD", "SLOAD", "ISZERO", "NOT"):
            yield "drop-unary:%s" % op, pre + post
    # transpose two adjacent store groups "<push a> <push b> STORE"
    for i in range(n - 5):
        g1, g2 = block[i:i + 3], block[i + 3:i + 6]
        if g1[2][0] in STORES and g2[2][0] in STORES and all(x[0] == "PUSH" for x in g1[:2] + g2[:2]):
            yield "transpose-stores:%s,%s" % (g1[2][0], g2[2][0]), block[:i] + g2 + g1 + block[i + 6:]


def distinguishable(a, b):
    """Some state of the domain tells a and b apart (both are given the deeper of the two needs)."""
    na, da = E.need_delta(a)
    nb, db = E.need_delta(b)
    deep = a if na >= nb else b
    for st in B.states_for(deep):
        try:
            ra = E.run(a, st)
            rb = E.run(b, st)
        except (E.OOG, E.Underflow):
            continue
        d = E.compare_results(ra, rb, st)
        if d is not None:
            d["state"] = st.key()
            return d
    return None


def tool_compare(ctx, a, b):
    with repo.quiet():
        ba = driver.build_one(a)
        bb = driver.build_one(b)
        return ctx.G.compare_asm_block_asm_format(ba, bb, ctx.params)


def work_opt(ctx, block):
    """Pairs (B, mutant of the sequence the tool itself proposes for B): the candidates the checker really sees are
    near the optimized block, not near the input -- a specification that licenses too much (e.g. a non-commutative
    result flagged commutative after a rule) is only visible on such pairs."""
    out = {"pairs": 0, "distinguishable": 0, "accepted_equal": 0, "rejected": 0, "raised": 0, "viol": []}
    try:
        r = driver.run_block(ctx, block)
    except (repo.UnitTimeout, MemoryError):
        raise
    cand = r.get("candidate")
    if r["raised"] or not cand or not r["candidate_changed"]:
        return out
    seen = set()
    for label, m in mutants(cand):
        t = tuple(m)
        if t in seen or m == cand:
            continue
        seen.add(t)
        try:
            E.need_delta(m)
        except E.BadInstr:
            continue
        out["pairs"] += 1
        d = distinguishable(block, m)
        if d is None:
            continue
        out["distinguishable"] += 1
        try:
            eq, reason = tool_compare(ctx, block, m)
        except (repo.UnitTimeout, MemoryError):
            raise
        except Exception:
            out["raised"] += 1
            continue
        if eq:
            out["accepted_equal"] += 1
            out["viol"].append({"kind": "accepted-distinguishable", "label": "opt+" + label, "block": B.to_text(block),
                                "other": B.to_text(m), "config": list(ctx.cfg), "diff": d})
        else:
            out["rejected"] += 1
    return out


def work(ctx, block):
    if isinstance(block, tuple) and block and block[0] == "opt":
        return work_opt(ctx, block[1])
    out = {"pairs": 0, "distinguishable": 0, "accepted_equal": 0, "rejected": 0, "raised": 0, "viol": []}
    # reflexivity
    try:
        eq, reason = tool_compare(ctx, block, block)
        if not eq:
            out["viol"].append({"kind": "irreflexive", "label": "reflexive", "block": B.to_text(block),
                                "other": B.to_text(block), "config": list(ctx.cfg), "reason": reason})
    except (repo.UnitTimeout, MemoryError):
        raise
    except Exception as e:
        out["viol"].append({"kind": "reflexive-raises", "label": "reflexive", "block": B.to_text(block),
                            "other": B.to_text(block), "config": list(ctx.cfg),
                            "reason": "%s: %s" % (type(e).__name__, str(e)[:150])})
        return out
    seen = set()
    for label, m in mutants(block):
        t = tuple(m)
        if t in seen or m == block:
            continue
        seen.add(t)
        try:
            E.need_delta(m)
        except E.BadInstr:
            continue
        out["pairs"] += 1
        d = distinguishable(block, m)
        if d is None:
            continue
        out["distinguishable"] += 1
        try:
            eq, reason = tool_compare(ctx, block, m)
        except (repo.UnitTimeout, MemoryError):
            raise
        except Exception:
            out["raised"] += 1  # raising on a pair is "not equal" for the caller (the pipeline keeps the input)
            continue
        if eq:
            out["accepted_equal"] += 1
            out["viol"].append({"kind": "accepted-distinguishable", "label": label, "block": B.to_text(block),
                                "other": B.to_text(m), "config": list(ctx.cfg), "diff": d})
        else:
            out["rejected"] += 1
    return out


def signature(v):
    ops = sorted({op for op, _ in _parse(v["block"]) if not (op.startswith("DUP") or op.startswith("SWAP")
                                                            or op in ("POP", "PUSH"))})
    return "%s;%s;ops=[%s]" % (v["kind"], v["label"], ",".join(ops))


def _parse(text):
    from .c01 import parse_text
    return parse_text(text)


# blocks that are split into several sub-blocks (a splitting instruction between arithmetic on the same stack slots)
SPLIT11 = [B.I("SUB"), B.I("ADD"), B.I("DIV"), B.I("SHR"), B.I("LT"), B.I("GAS"), B.I("LOG0"), B.I("DUP1"),
           B.I("SWAP1"), B.P(1), B.I("MSTORE")]
EXTRA = [B.I(x) for x in ("MUL", "SDIV", "MOD", "SMOD", "LT", "SLT", "SAR", "MSTORE8", "KECCAK256")]


def unit_sets(tier):
    base = [("-greedy",), ("-no-simplification", "-greedy")]
    allc = base + [("-storage", "-greedy"), ("-partition", "-greedy")]
    if tier == "quick":
        yield "tree(CORE+,2)", list(B.tree(B.CORE + EXTRA, 2)), allc
        yield "tree(CORE,3)", list(B.tree(B.CORE, 3)), base[:1]
        yield "mem-family(2)", list(families.mem_family(2)), base[:1]
        yield "rule-family(1)/8", list(families.rule_family(1))[::8], base[:1]
        yield "mem-family(2)/3@no-simp", list(families.mem_family(2))[::3], base[1:2]
        yield "tree(SPLIT11,3)", list(B.tree(SPLIT11, 3)), base[:1] + [("-storage", "-greedy")]
        yield "vocabulary-family", families.vocabulary_family(), base
        yield "opt:vocabulary-family", [("opt", b) for b in families.vocabulary_family()], base[:1]
        yield "opt:cse-family/2", [("opt", b) for b in families.cse_family()[::2]], base[:1]
        yield "opt:consume-family/2", [("opt", b) for b in list(families.consume_family())[::2]], base[:1]
        yield "opt:rule-family(1)/8", [("opt", b) for b in list(families.rule_family(1))[3::8]], base[:1]
    else:
        yield "tree(CORE+,3)", list(B.tree(B.CORE + EXTRA, 3)), allc
        yield "mem-family(2)", list(families.mem_family(2)), allc
        yield "rule-family(1)", list(families.rule_family(1)), base
        yield "tree(SPLIT11,4)", list(B.tree(SPLIT11, 4)), allc
        yield "vocabulary-family", families.vocabulary_family(), allc
        yield "opt:vocabulary-family", [("opt", b) for b in families.vocabulary_family()], allc
        yield "opt:cse-family", [("opt", b) for b in families.cse_family()], base
        yield "opt:consume-family", [("opt", b) for b in families.consume_family()], base[:1] + allc[2:]
        yield "opt:rule-family(1)", [("opt", b) for b in families.rule_family(1)], base[:1]
        yield "opt:mem-family(2)", [("opt", b) for b in families.mem_family(2)], base[:1]


def main(tier, seed, only=None):
    chk = report.Check("C05", "exploration", tier, seed)
    chk.cov["rule"] = ("blocks (prefix trees, memory and rule families) x all single-point semantic mutations "
                       "(opcode substitution within confusable pairs, operand swap, constant change, DUP/SWAP index, "
                       "dropped/duplicated/transposed stores) x front-end option sets; every pair the reference EVM "
                       "distinguishes is given to compare_asm_block_asm_format; plus compare(B,B) for every block; plus "
                       "(opt: sets) pairs (B, single-point mutation of the sequence the tool proposes for B); "
                       "non-trivial = distinguishable pairs submitted to the checker")
    tot = {"pairs": 0, "distinguishable": 0, "accepted_equal": 0, "rejected": 0, "raised": 0, "budget": 0,
           "blocks": 0}
    sets = {}

    def on_result(cfg, block, status, value):
        chk.add("evaluations")
        if status != "ok":
            tot["budget"] += 1
            return
        tot["blocks"] += 1
        for k in ("pairs", "distinguishable", "accepted_equal", "rejected", "raised"):
            tot[k] += value[k]
        for v in value["viol"]:
            chk.violation(signature(v), v)
        if value["rejected"] and tot["blocks"] % 3001 == 0:
            if isinstance(block, tuple) and block and block[0] == "opt":
                block = block[1]
            chk.sample({"block": B.to_text(block), "config": list(cfg), "distinguishable_mutants": value["distinguishable"],
                        "rejected": value["rejected"]})

    for name, units, cs in unit_sets(tier):
        if only and only not in name:
            continue
        sets[name] = {"blocks": len(units), "configs": len(cs)}
        tasks = [(cfg, ch) for cfg in cs for ch in pool.chunks(units, max(100, len(units) // 32 + 1))]
        pool.run_tasks(tasks, work, setup=driver.setup_ctx, unit_timeout=60, on_result=on_result)
    # ---- external-checker adapter: rendering of every block against an independent rendering; real binary on a slice
    fv = {"blocks": 0, "binary": 0, "true": 0, "disagree": 0}
    if not only or only == "forves":
        fblocks = list(B.tree(B.MIXED + [B.P(0xFFFFFFFFFFFFFFFFFFFFFF), B.I("PUSH data", "a1"), B.I("PUSHIMMUTABLE", "a1"),
                                         B.I("PUSHSIZE"), B.I("LOG1"), B.I("SLOAD")], 3 if tier == "quick" else 4))
        fblocks = [b for b in fblocks if not any(op in ("JUMPI", "RETURN") for op, _ in b[:-1])]

        def on_f(cfg, unit, status, value):
            chk.add("evaluations")
            if status != "ok":
                tot["budget"] += 1
                return
            fv["blocks"] += 1
            fv["binary"] += value["binary_calls"]
            fv["true"] += value["true"]
            fv["disagree"] += value["disagree"]
            if value["viol"]:
                v = value["viol"]
                nsplit = sum(1 for op, _ in unit[0] if op in FORVES_SPLIT)
                chk.violation("forves-rendering;segments=%s" % ("1" if nsplit == 0 else "several"), v)
            for d in value.get("disagreements", [])[:3]:
                chk.cov.setdefault("forves_vs_reference_disagreements", []).append(d)

        units = [(b, i % 40 == 0) for i, b in enumerate(fblocks)]
        tasks = [(("-greedy",), ch) for ch in pool.chunks(units, max(100, len(units) // 16 + 1))]
        pool.run_tasks(tasks, work_forves, setup=driver.setup_ctx, unit_timeout=120, on_result=on_f)
        chk.cov.update({"forves_blocks_rendered": fv["blocks"], "forves_binary_calls": fv["binary"],
                        "forves_true_answers": fv["true"], "forves_disagrees_with_reference": fv["disagree"]})
    chk.cov.update({"sets": sets, "blocks": tot["blocks"], "mutant_pairs": tot["pairs"],
                    "distinguishable_pairs": tot["distinguishable"], "rejected_by_checker": tot["rejected"],
                    "checker_raised_on_pair": tot["raised"], "accepted_distinguishable": tot["accepted_equal"],
                    "skipped_budget": tot["budget"], "distinct_nontrivial": tot["distinguishable"]})
    if not chk.cov["samples"]:
        chk.sample({"note": "see sets"})
    guards = {}
    if not only or only != "forves":
        guards = {"distinguishable_pairs": tot["distinguishable"], "rejected": tot["rejected"]}
    if not only or only == "forves":
        guards["forves_blocks_rendered"] = fv["blocks"]
    return chk.finish(guards=guards)


def replay(path):
    w = json.load(open(path))
    a, b = _parse(w["block"]), _parse(w["other"])
    res = {}

    def one(ctx, unit):
        x, y = unit
        try:
            return tool_compare(ctx, x, y)
        except Exception as e:
            return ("raised", "%s: %s" % (type(e).__name__, e))

    def on_result(cfg, unit, status, value):
        res["status"], res["value"] = status, value

    pool.run_tasks([(tuple(w["config"]), [(a, b)])], one, setup=driver.setup_ctx, unit_timeout=60, on_result=on_result)
    print("tool compare ->", res.get("value"))
    v = res.get("value")
    bad = False
    if w["kind"] == "accepted-distinguishable":
        bad = bool(v and v[0] is True and distinguishable(a, b))
    elif w["kind"] == "irreflexive":
        bad = bool(v and v[0] is False)
    else:
        bad = bool(v and v[0] == "raised")
    if bad:
        print("VIOLATION property=C05 replay=%s" % path)
        return 1
    print("no violation on replay")
    return 0


# ---------------------------------------------------------------------------------------------- forves adapter

FORVES_SPLIT = {"LOG0", "LOG1", "LOG2", "LOG3", "LOG4", "CALLDATACOPY", "CODECOPY", "EXTCODECOPY", "RETURNDATACOPY",
                "CALL", "STATICCALL", "DELEGATECALL", "CREATE", "CREATE2", "ASSIGNIMMUTABLE", "GAS", "tag", "JUMPDEST",
                "JUMP", "JUMPI", "STOP", "RETURN", "REVERT", "INVALID", "SELFDESTRUCT"}
META_ID = {"PUSHDEPLOYADDRESS": 0, "PUSHSIZE": 1, "PUSHLIB": 2, "PUSHIMMUTABLE": 3, "PUSH data": 4, "PUSH [tag]": 5,
           "PUSH [$]": 6, "PUSH #[$]": 7}


def plain_of(block, push0=True):
    """The tool's documented plain form (AsmBytecode.to_plain) of my block, written independently."""
    out = []
    for op, arg in block:
        if op == "PUSH":
            out.append("PUSH0" if (arg == 0 and push0) else "PUSH %x" % arg)
        elif arg is None or "JUMP" in op:
            out.append(op)
        else:
            out.append("%s %s" % (op, arg))
    return " ".join(out)


def forves_reference(block, stores_split=False):
    """Expected input of the external checker for the pair (block, block): one '#'-record per maximal segment
    between non-optimizable instructions, each segment rendered with sized PUSHn mnemonics and METAPUSH ids."""
    segs = []
    cur = []
    split = set(FORVES_SPLIT)
    if stores_split:
        split |= {"MSTORE", "MSTORE8", "SSTORE"}
    for op, arg in block:
        if op in split:
            if cur:
                segs.append(cur)
            cur = []
            continue
        if op == "PUSH":
            n = max(1, (len("%x" % arg) + 1) // 2)
            cur += ["PUSH%d" % n, "0x%x" % arg]
        elif op in META_ID:
            cur += ["METAPUSH", str(META_ID[op]), "0x%s" % (arg if arg is not None else "0")]
        else:
            cur.append(op)
    if cur:
        segs.append(cur)
    recs = []
    for s in segs:
        t = " ".join(s)
        recs.append("\n".join(["#", t, t, "500"]))
    return "\n".join(recs)


def work_forves(ctx, unit):
    block, with_binary = unit
    from verification import forves_verification as fv
    out = {"viol": None, "binary_calls": 0, "true": 0, "disagree": 0}
    txt = plain_of(block, ctx.push0)
    # PUSHLIB operands are indexes in the plain form
    libs = {}
    blk = []
    for op, arg in block:
        if op == "PUSHLIB":
            libs.setdefault(arg, len(libs))
            blk.append((op, str(libs[arg])))
        else:
            blk.append((op, arg))
    txt = plain_of(blk, ctx.push0)
    want = forves_reference(blk)
    with repo.quiet():
        try:
            got = fv.forves_format(txt, txt)
        except (repo.UnitTimeout, MemoryError):
            raise
        except BaseException as e:
            got = "raised: %s" % e
    if got is None:
        got = "<None: the adapter failed>"
    if got.replace("0x0 ", "0x0 ") != want and _norm_fv(got) != _norm_fv(want):
        out["viol"] = {"kind": "forves-rendering", "label": "rendering", "block": B.to_text(block), "other": B.to_text(block),
                       "config": list(ctx.cfg), "got": got[:600], "want": want[:600]}
        return out
    if with_binary:
        n = 0
        for label, m in mutants(block):
            if n >= 6:
                break
            if m == block or any(op in FORVES_SPLIT for op, _ in m) != any(op in FORVES_SPLIT for op, _ in block):
                continue
            try:
                E.need_delta(m)
            except E.BadInstr:
                continue
            d = distinguishable(block, m)
            n += 1
            with repo.quiet():
                try:
                    r = fv.compare_forves(txt, plain_of(m, ctx.push0), "gas", True)
                except (repo.UnitTimeout, MemoryError):
                    raise
                except BaseException as e:
                    r = "raised"
            out["binary_calls"] += 1
            if r == "true":
                out["true"] += 1
                if d is not None:
                    # the rendering of this pair is faithful (checked above for the block itself), so this is a
                    # disagreement between the external checker and my reference: counted, investigated by hand
                    out["disagree"] += 1
                    out.setdefault("disagreements", []).append([B.to_text(block), B.to_text(m)])
    return out


def _norm_fv(s):
    return " ".join(s.lower().split())
