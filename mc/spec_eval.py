"""E4 -- specification evaluator.

Gives a specification (SFS dict) the EVM meaning of its instructions and executes its memory/storage operations in
a chosen linearization L.  Implemented as an instruction *stream* fed to the reference EVM (one source of truth for
opcode semantics): operands are pushed as constants, the operation is executed by the machine, its result is read
back from the live stack.
"""
import itertools

from . import evm_ref as E

STATEFUL = {"MLOAD", "SLOAD", "KECCAK256", "SHA3", "MSTORE", "MSTORE8", "SSTORE"}
STORES = {"MSTORE", "MSTORE8", "SSTORE"}


class SpecError(Exception):
    """The specification is not evaluable (dangling variable, cyclic data flow, unknown instruction)."""


def instr_of(ui, libmap=None):
    """(op, arg) of a user instruction as the reference EVM understands it."""
    d = ui["disasm"]
    if d == "PUSH0":
        return ("PUSH", 0)
    if d == "PUSH":
        return ("PUSH", int(ui["value"][0]))
    if d in E.PSEUDO or d == "ASSIGNIMMUTABLE":
        v = ui.get("value")
        return (d, None if not v else _operand(d, v[0], libmap))
    return (d, None)


def _operand(d, v, libmap):
    """Operand spelling of a pseudo push, from the integer the front-end keeps (same conversion as the documented
    assembly form: tags are decimal, data / immutable / sub-assembly references are hex, libraries are indexes into
    the block's table of library references)."""
    if d == "PUSHLIB":
        return (libmap or {}).get(int(v), "#%s" % v)
    if d == "PUSH [tag]":
        return str(v)
    if isinstance(v, int):
        return "%x" % v
    return str(v)


def libmap_of(block):
    """index -> library reference, numbered by first occurrence in the block (solc's PUSHLIB operands)."""
    m = {}
    for op, arg in block:
        if op == "PUSHLIB" and arg not in m.values():
            m[len(m)] = arg
    return m


class Spec:
    def __init__(self, sfs, libmap=None):
        self.sfs = sfs
        self.libmap = libmap
        self.instrs = {ui["id"]: ui for ui in sfs["user_instrs"]}
        self.producer = {}
        for ui in sfs["user_instrs"]:
            for o in ui.get("outpt_sk", []):
                self.producer[o] = ui["id"]
        self.stateful = [i for i, ui in self.instrs.items() if ui["disasm"] in STATEFUL]
        self._deps_cache = None

    def stateful_support(self, var, seen=None):
        """Stateful instruction ids whose result `var` (transitively, through pure instructions) depends on."""
        out = set()
        stack = [var]
        visited = set()
        while stack:
            v = stack.pop()
            if v in visited or not isinstance(v, str):
                continue
            visited.add(v)
            p = self.producer.get(v)
            if p is None:
                continue
            if p in self.instrs and self.instrs[p]["disasm"] in STATEFUL:
                out.add(p)
            else:
                stack.extend(self.instrs[p]["inpt_sk"])
        return out

    def order_constraints(self):
        """Pairs (a, b): stateful a must execute before stateful b (declared dependencies + data flow)."""
        if self._deps_cache is not None:
            return self._deps_cache
        st = set(self.stateful)
        cons = set()
        for a, b in self.sfs.get("dependencies", []):
            if a in st and b in st:
                cons.add((a, b))
        for b in self.stateful:
            for v in self.instrs[b]["inpt_sk"]:
                for a in self.stateful_support(v):
                    if a != b:
                        cons.add((a, b))
        self._deps_cache = cons
        return cons

    def declared_pairs(self):
        return {(a, b) for a, b in self.sfs.get("dependencies", [])}


def linearizations(spec, cap=5040):
    """All total orders of the stateful operations compatible with order_constraints().  Yields lists of ids.
    Returns at most `cap` orders (the caller reports when the cap is hit)."""
    ops = sorted(spec.stateful)
    cons = spec.order_constraints()
    preds = {o: set() for o in ops}
    for a, b in cons:
        if a in preds and b in preds:
            preds[b].add(a)
    n = [0]

    def rec(done, order):
        if n[0] >= cap:
            return
        if len(order) == len(ops):
            n[0] += 1
            yield list(order)
            return
        for o in ops:
            if o not in done and preds[o] <= done:
                done.add(o)
                order.append(o)
                yield from rec(done, order)
                order.pop()
                done.discard(o)

    yield from rec(set(), [])


def count_linearizations(spec, cap=5040):
    return sum(1 for _ in linearizations(spec, cap))


def stream(spec, order, shared, must_use_all=True):
    """Instruction stream evaluating `spec` with its stateful operations in `order`, starting from the words on top
    of the live machine stack (src_ws) and leaving tgt_ws in their place."""
    sfs = spec.sfs
    st = shared["st"]
    src = sfs["src_ws"]
    if len(st) < len(src):
        raise E.Underflow("spec source stack")
    vals = {}
    for i, v in enumerate(src):
        vals[v] = st[-1 - i]
    executed = set()

    def value_of(v, depth=0):
        """generator: yields instructions, returns the concrete value of operand v."""
        if isinstance(v, int):
            return v & E.MASK
        if isinstance(v, str) and v not in vals and v not in spec.producer:
            try:
                return int(v) & E.MASK
            except ValueError:
                raise SpecError("dangling variable %s" % v)
        if v in vals:
            return vals[v]
        if depth > 200:
            raise SpecError("cyclic data flow at %s" % v)
        pid = spec.producer[v]
        ui = spec.instrs[pid]
        if ui["disasm"] in STATEFUL:
            raise SpecError("operand %s needs %s before it was scheduled" % (v, pid))
        yield from exec_instr(pid, depth + 1)
        return vals[v]

    def exec_instr(pid, depth=0):
        ui = spec.instrs[pid]
        ops = []
        for a in ui["inpt_sk"]:
            x = yield from value_of(a, depth)
            ops.append(x)
        alt = None
        if ui.get("commutative") and len(ops) == 2 and ops[0] != ops[1]:
            # the flag licenses every consumer of the specification (greedy, encoder, checker) to swap the operands:
            # the specification denotes both orders, so both must give the same value on this state
            if ui["disasm"] in STATEFUL or not ui.get("outpt_sk"):
                raise SpecError("instruction %s (%s) is flagged commutative" % (pid, ui["disasm"]))
            for x in ops:
                yield ("PUSH", x)
            yield instr_of(ui, spec.libmap)
            alt = st[-1]
            yield ("POP", None)
        for x in reversed(ops):
            yield ("PUSH", x)
        yield instr_of(ui, spec.libmap)
        outs = ui.get("outpt_sk", [])
        if outs:
            if len(outs) != 1:
                raise SpecError("multi-output instruction %s" % pid)
            vals[outs[0]] = st[-1]
            yield ("POP", None)
            if alt is not None and alt != vals[outs[0]]:
                raise SpecError("instruction %s (%s) is flagged commutative but its operand order matters"
                                % (pid, ui["disasm"]))
        executed.add(pid)

    for pid in order:
        yield from exec_instr(pid)
    tgt = []
    for v in sfs["tgt_ws"]:
        x = yield from value_of(v)
        tgt.append(x)
    for _ in src:
        yield ("POP", None)
    for x in reversed(tgt):
        yield ("PUSH", x)


def run_spec_chain(pieces, state):
    """pieces: list of ("spec", Spec, order) | ("code", [instr, ...]).  Executes them in sequence from `state` on
    the reference EVM and returns its Result."""
    shared = {}

    def gen():
        for p in pieces:
            if p[0] == "code":
                for ins in p[1]:
                    yield ins
            else:
                yield from stream(p[1], p[2], shared)

    return E.run(gen(), state, shared=shared)


BEGIN = {"tag", "JUMPDEST"}


def split_block(block):
    """(markers, optimizable body, terminal suffix) the way the tool partitions a block's instructions."""
    pre = [i for i in block if i[0] in BEGIN]
    post = [i for i in block if i[0] in E.TERMINAL]
    body = [i for i in block if i[0] not in BEGIN and i[0] not in E.TERMINAL]
    return pre, body, post


def segments(body, subs):
    """Slices of `body` corresponding to the tool's sub_block_list (consecutive sub-blocks share the split
    instruction).  Returns list of (inner instrs, split instr or None)."""
    out = []
    pos = 0
    for i, sub in enumerate(subs):
        n = len(sub)
        start = pos if i == 0 else pos - 1
        seg = body[start:start + n]
        if len(seg) != n:
            raise SpecError("sub-block list longer than the block")
        for ins, txt in zip(seg, sub):
            if not txt.startswith(ins[0].split(" ")[0]) and not (ins[0] == "PUSH" and txt.startswith("PUSH")):
                raise SpecError("sub-block list does not match the block at %r vs %r" % (ins, txt))
        inner = list(seg)
        if i > 0:
            inner = inner[1:]
        split = None
        if i < len(subs) - 1:
            split = inner[-1]
            inner = inner[:-1]
        out.append((inner, split))
        pos = start + n
    if pos != len(body):
        raise SpecError("sub-block list covers %d of %d instructions" % (pos, len(body)))
    return out


def pieces_for(block, specs, subs, block_name, order_of=None):
    """Evaluation plan for a whole block from its sub-block specifications.
    order_of(Spec) -> list of stateful ids (default: first linearization)."""
    pre, body, post = split_block(block)
    lib = libmap_of(block)
    pieces = []
    segs = segments(body, subs) if subs else [(body, None)]
    used = set()
    for i, (inner, split) in enumerate(segs):
        key = "%s_%d" % (block_name, i)
        if key in specs:
            sp = Spec(specs[key], lib)
            order = order_of(sp) if order_of else next(linearizations(sp))
            pieces.append(("spec", sp, order))
            used.add(key)
        else:
            pieces.append(("code", inner))
        if split is not None:
            pieces.append(("code", [split]))
    extra = set(specs) - used
    if extra:
        raise SpecError("specification keys without a sub-block: %s" % sorted(extra))
    pieces.append(("code", post))
    return pieces
