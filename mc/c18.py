"""C18 -- formula constructors preserve truth value and the emitted text matches the formula.

All well-sorted formula trees up to a depth bound over Bool atoms {p,q}, Int atoms {i,j} and literals are built
through add_and/add_or/add_not/add_implies/add_eq/add_lt/add_leq/add_distinct; under every valuation the constructed
object, the text produced by translate_formula (parsed by an independent S-expression reader) and the unsimplified
tree must have the same truth value; structural equality of constructed objects must imply equal truth value.
"""
import itertools
import json

from . import pool, report, repo

BOOL_ATOMS = ["p", "q"]
INT_ATOMS = ["i", "j"]
VALUATIONS = [dict(p=p, q=q, i=i, j=j) for p in (True, False) for q in (True, False) for i in (0, 1, 2)
              for j in (0, 1, 2)]


# trees: ("b", name) | ("i", name) | ("lit", value) | (op, child...)
def eval_tree(t, v):
    k = t[0]
    if k in ("b", "i"):
        return v[t[1]]
    if k == "lit":
        return t[1]
    a = [eval_tree(c, v) for c in t[1:]]
    if k == "and":
        return all(a)
    if k == "or":
        return any(a)
    if k == "not":
        return not a[0]
    if k == "=>":
        return (not a[0]) or a[1]
    if k == "=":
        return a[0] == a[1]
    if k == "<":
        return a[0] < a[1]
    if k == "<=":
        return a[0] <= a[1]
    if k == "distinct":
        return len(set(a)) == len(a)
    raise ValueError(k)


def show(t):
    if t[0] in ("b", "i"):
        return t[1]
    if t[0] == "lit":
        return str(t[1]).lower() if isinstance(t[1], bool) else str(t[1])
    return "(%s %s)" % (t[0], " ".join(show(c) for c in t[1:]))


def parse_tree(s):
    """My reader of show()'s format (for replay files)."""
    toks = s.replace("(", " ( ").replace(")", " ) ").split()
    pos = [0]

    def rd():
        t = toks[pos[0]]
        pos[0] += 1
        if t == "(":
            op = toks[pos[0]]
            pos[0] += 1
            kids = []
            while toks[pos[0]] != ")":
                kids.append(rd())
            pos[0] += 1
            return (op,) + tuple(kids)
        if t in ("true", "false"):
            return ("lit", t == "true")
        if t.lstrip("-").isdigit():
            return ("lit", int(t))
        return ("b", t) if t in BOOL_ATOMS else ("i", t)

    return rd()


class Ctx:
    def __init__(self):
        repo.load()
        from smt_encoding.constraints import connector_factory as cf
        from smt_encoding.constraints.function import Const, Sort, ExpressionReference
        from smt_encoding.constraints.connector import Connector
        from smt_encoding.solver.solver_from_executable import translate_formula
        self.cf = cf
        self.Connector = Connector
        self.ExpressionReference = ExpressionReference
        self.translate = translate_formula
        self.atoms = {n: Const(n, Sort.boolean) for n in BOOL_ATOMS}
        self.atoms.update({n: Const(n, Sort.integer) for n in INT_ATOMS})
        self.builders = {"and": cf.add_and, "or": cf.add_or, "not": cf.add_not, "=>": cf.add_implies, "=": cf.add_eq,
                         "<": cf.add_lt, "<=": cf.add_leq, "distinct": cf.add_distinct}

    def build(self, t):
        k = t[0]
        if k in ("b", "i"):
            return self.atoms[t[1]]
        if k == "lit":
            return t[1]
        return self.builders[k](*[self.build(c) for c in t[1:]])

    def eval_obj(self, o, v):
        """Truth value of a constructed object, reading only its public structure."""
        if type(o) in (bool, int):
            return o
        if type(o) is self.ExpressionReference:
            if o.arguments:
                raise ValueError("unexpected application")
            return v[o.func.name]
        return eval_tree((o.connector_name,) + tuple(("lit", self.eval_obj(a, v)) for a in o.arguments), v)


def sexpr_eval(text, v):
    """Independent reader + evaluator of the SMT-LIB text."""
    toks = text.replace("(", " ( ").replace(")", " ) ").split()
    pos = [0]

    def rd():
        t = toks[pos[0]]
        pos[0] += 1
        if t == "(":
            op = toks[pos[0]]
            pos[0] += 1
            kids = []
            while toks[pos[0]] != ")":
                kids.append(rd())
            pos[0] += 1
            if not kids:
                raise ValueError("connective %s without arguments" % op)
            return eval_tree((op,) + tuple(("lit", k) for k in kids), v)
        if t == "true":
            return True
        if t == "false":
            return False
        if t.lstrip("-").isdigit():
            return int(t)
        return v[t]

    r = rd()
    if pos[0] != len(toks):
        raise ValueError("trailing tokens")
    return r


def atoms(core):
    if core:
        return [("b", "p"), ("lit", True), ("lit", False)], [("i", "i"), ("lit", 0), ("lit", 1)]
    return ([("b", "p"), ("b", "q"), ("lit", True), ("lit", False)],
            [("i", "i"), ("i", "j"), ("lit", 0), ("lit", 1), ("lit", 2)])


def level1(bools, ints, max_arity=3):
    out = []
    for b in bools:
        out.append(("not", b))
    for op in ("and", "or"):
        for n in range(1, max_arity + 1):
            for args in itertools.product(bools, repeat=n):
                out.append((op,) + args)
    for a, b in itertools.product(bools, repeat=2):
        out.append(("=>", a, b))
        out.append(("=", a, b))
    for a, b in itertools.product(ints, repeat=2):
        out.append(("=", a, b))
        out.append(("<", a, b))
        out.append(("<=", a, b))
        out.append(("distinct", a, b))
    if max_arity >= 3:
        for args in itertools.product(ints, repeat=3):
            out.append(("distinct",) + args)
    return out


def trees(tier):
    """Enumerated formula trees (deduplicated)."""
    fb, fi = atoms(False)
    cb, ci = atoms(True)
    d0 = list(fb)
    d1_full = level1(fb, fi, 3)
    d1_core = level1(cb, ci, 2)
    out = list(d0) + d1_full
    pool2 = cb + d1_core
    d2 = []
    for f in d1_full:
        d2.append(("not", f))
    for op in ("and", "or", "=>", "="):
        for a, b in itertools.product(pool2, repeat=2):
            if a[0] in ("b", "lit") and b[0] in ("b", "lit"):
                continue
            d2.append((op, a, b))
    for op in ("and", "or"):
        for a in d1_core:
            for b, c in itertools.product(cb, repeat=2):
                d2.append((op, a, b, c))
                d2.append((op, b, a, c))
                d2.append((op, b, c, a))
    out += d2
    if tier != "quick":
        step = 1
    else:
        step = 7
    d3 = []
    for f in d2[::step]:
        d3.append(("not", f))
        for op in ("and", "or", "=>", "="):
            for a in cb:
                d3.append((op, f, a))
                d3.append((op, a, f))
    for f in d2[::step * 5]:
        for g in d1_core[::3]:
            for op in ("and", "or", "=>", "="):
                d3.append((op, f, g))
                d3.append((op, g, f))
    out += d3
    seen = set()
    res = []
    for t in out:
        if t not in seen:
            seen.add(t)
            res.append(t)
    return res


def setup(_):
    return Ctx()


def work(ctx, chunk):
    viol = []
    n_val = 0
    nontriv = 0
    for t in chunk:
        try:
            obj = ctx.build(t)
        except (repo.UnitTimeout, MemoryError):
            raise
        except BaseException as e:
            viol.append({"clause": "constructor-raised", "tree": show(t), "detail": "%s: %s" % (type(e).__name__, str(e)[:80])})
            continue
        if type(obj) not in (bool, int):
            nontriv += 1
        try:
            text = ctx.translate(obj)
        except BaseException as e:
            viol.append({"clause": "translate-raised", "tree": show(t), "detail": "%s: %s" % (type(e).__name__, str(e)[:80])})
            continue
        for v in VALUATIONS:
            n_val += 1
            want = eval_tree(t, v)
            try:
                got = ctx.eval_obj(obj, v)
            except Exception as e:
                viol.append({"clause": "object-not-evaluable", "tree": show(t), "detail": str(e)[:80]})
                break
            if bool(got) != bool(want):
                viol.append({"clause": "constructed-value-differs", "tree": show(t), "object": str(obj), "valuation": v,
                             "want": want, "got": got})
                break
            try:
                got2 = sexpr_eval(text, v)
            except Exception as e:
                viol.append({"clause": "text-not-parsable", "tree": show(t), "text": text, "detail": str(e)[:80]})
                break
            if bool(got2) != bool(want):
                viol.append({"clause": "text-value-differs", "tree": show(t), "text": text, "valuation": v,
                             "want": want, "got": got2})
                break
    return {"viol": viol[:20], "n_viol": len(viol), "valuations": n_val, "nontrivial": nontriv}


def work_pairs(ctx, unit):
    """Structural equality implies equal truth value: all pairs (a, b) with a from `left`, b from `right`."""
    left, right = unit
    objs_l = []
    for t in left:
        try:
            objs_l.append((t, ctx.build(t)))
        except BaseException:
            pass
    objs_r = []
    for t in right:
        try:
            o = ctx.build(t)
            objs_r.append((t, o, tuple(bool(eval_tree(t, v)) for v in VALUATIONS)))
        except BaseException:
            pass
    viol = []
    n = 0
    equal_pairs = 0
    for ta, oa in objs_l:
        va = tuple(bool(eval_tree(ta, v)) for v in VALUATIONS)
        for tb, ob, vb in objs_r:
            n += 1
            try:
                same = (oa == ob)
            except BaseException as e:
                viol.append({"clause": "eq-raised", "tree": show(ta), "other": show(tb), "detail": str(e)[:80]})
                continue
            if same is True:
                # ill-sorted coincidences of Python (True == 1) between a Bool and an Int formula are outside the domain
                if type(oa) in (bool, int) and type(ob) in (bool, int) and type(oa) != type(ob):
                    continue
                equal_pairs += 1
                if va != vb:
                    viol.append({"clause": "equal-objects-different-value", "tree": show(ta), "other": show(tb),
                                 "objects": [str(oa), str(ob)]})
    return {"viol": viol[:20], "n_viol": len(viol), "pairs": n, "equal_pairs": equal_pairs}


def sig(v):
    import re
    t = v["tree"]
    ops = re.findall(r"\((\S+)", t)
    return "%s;%s" % (v["clause"], ",".join(ops[:3]))


def main(tier, seed, only=None):
    chk = report.Check("C18", "exploration", tier, seed)
    chk.cov["rule"] = ("well-sorted formula trees: depth<=1 over all atoms/literals with arity<=3, depth 2 over a core "
                       "atom set, a slice of depth 3 (all of it in the thorough tier), built with the add_* "
                       "constructors; x all 36 valuations; oracle: own evaluator on the unsimplified tree vs the "
                       "constructed object vs the parsed translate_formula text; plus == between all pairs of depth<=1 "
                       "objects and a slice of depth-2 pairs; non-trivial = trees whose constructed object is not a literal")
    ts = trees(tier)
    tot = {"trees": 0, "valuations": 0, "nontrivial": 0, "pairs": 0, "equal_pairs": 0, "budget": 0}

    def on_result(_a, chunk, status, value):
        if status != "ok":
            tot["budget"] += 1
            chk.violation("harness-%s" % status, {"detail": str(value)[-300:]})
            return
        chk.add("evaluations", len(chunk) if isinstance(chunk, list) else 0)
        tot["trees"] += len(chunk)
        tot["valuations"] += value["valuations"]
        tot["nontrivial"] += value["nontrivial"]
        for v in value["viol"]:
            chk.violation(sig(v), v)

    if not only or only == "trees":
        tasks = [(None, [ch]) for ch in pool.chunks(ts, max(500, len(ts) // 64 + 1))]
        pool.run_tasks(tasks, work, setup=setup, unit_timeout=300, on_result=on_result)
    # pairs
    if not only or only == "pairs":
        fb, fi = atoms(False)
        d1 = list(fb) + level1(fb, fi, 3)
        d2 = [t for t in ts if t not in set(d1)][:: (9 if tier == "quick" else 3)]

        def on_pairs(_a, unit, status, value):
            if status != "ok":
                tot["budget"] += 1
                chk.violation("harness-%s" % status, {"detail": str(value)[-300:]})
                return
            chk.add("evaluations", value["pairs"])
            tot["pairs"] += value["pairs"]
            tot["equal_pairs"] += value["equal_pairs"]
            for v in value["viol"]:
                chk.violation(sig(v), v)

        units = [(ch, d1) for ch in pool.chunks(d1, 12)]
        units += [(ch, d2[:400]) for ch in pool.chunks(d2[:400], 20)]
        tasks = [(None, [u]) for u in units]
        pool.run_tasks(tasks, work_pairs, setup=setup, unit_timeout=600, on_result=on_pairs)
    chk.sample({"trees": [show(t) for t in ts[5::max(1, len(ts) // 6)]][:6]})
    chk.cov.update({"trees": tot["trees"], "tree_valuations": tot["valuations"], "equality_pairs": tot["pairs"],
                    "structurally_equal_pairs": tot["equal_pairs"], "distinct_nontrivial": tot["nontrivial"],
                    "skipped_budget": tot["budget"]})
    guards = {}
    if not only or only == "trees":
        guards["nontrivial"] = tot["nontrivial"]
    if not only or only == "pairs":
        guards["equal_pairs"] = tot["equal_pairs"]
    return chk.finish(guards=guards)


def replay(path):
    w = json.load(open(path))
    ctx = Ctx()
    t = parse_tree(w["tree"])
    if "other" in w:
        r = work_pairs(ctx, ([t], [parse_tree(w["other"])]))
    else:
        r = work(ctx, [t])
    print("replay:", r["viol"][:2])
    if r["n_viol"]:
        print("VIOLATION property=C18 replay=%s" % path)
        return 1
    print("no violation on replay")
    return 0
