"""Templated block families (product of slots), built from small expression trees.

Expression: ("in", i) input word i (0 = top of the initial stack), ("c", v) constant, ("z", NAME) zero-ary opcode,
(OP, e1, ..., en) with e1 the operand that must be on top of the stack when OP executes.
"""
import itertools

from .blocks import P, I, BOUNDARY, MASK, B255
from .evm_ref import ARITY

UNARY = ["ISZERO", "NOT"]
BINARY = ["ADD", "SUB", "MUL", "DIV", "SDIV", "MOD", "SMOD", "EXP", "SIGNEXTEND",
          "LT", "GT", "SLT", "SGT", "EQ", "AND", "OR", "XOR", "BYTE", "SHL", "SHR", "SAR"]
TERNARY = ["ADDMOD", "MULMOD"]
A160 = (1 << 160) - 1
EXTRA_CONSTS = [3, 4, 6, 1 << 64, (1 << 64) - 1, A160, 1 << 160, A160 - 1, 3 << 254, (1 << 255) + 1]


def compile_copy(exprs, n_inputs):
    """Code that evaluates exprs left to right, leaving each value on the stack above the (untouched) inputs.
    Input variables are fetched with DUPk; returns None if some DUP would exceed 16."""
    code = []
    h = 0  # values pushed above the inputs so far

    def go(e):
        nonlocal h
        kind = e[0]
        if kind == "in":
            k = h + e[1] + 1
            if k > 16:
                raise OverflowError
            code.append(I("DUP%d" % k))
            h += 1
        elif kind == "c":
            code.append(P(e[1]))
            h += 1
        elif kind == "z":
            code.append(I(e[1]) if not isinstance(e[1], tuple) else e[1])
            h += 1
        else:
            for a in reversed(e[1:]):
                go(a)
            code.append(I(kind))
            pops, pushes = ARITY[kind]
            h += pushes - pops

    try:
        for e in exprs:
            go(e)
    except OverflowError:
        return None
    return code


def n_inputs(exprs):
    m = 0

    def go(e):
        nonlocal m
        if e[0] == "in":
            m = max(m, e[1] + 1)
        elif e[0] not in ("c", "z"):
            for a in e[1:]:
                go(a)
    for e in exprs:
        go(e)
    return m


X, Y, Z = ("in", 0), ("in", 1), ("in", 2)


def C(v):
    return ("c", v)


def rule_family(level=1):
    """Instantiations of every operator with operands from {x, same x, y, boundary constants}; level 2 adds all
    ordered pairs (op1 feeding op2 in either position) over a reduced leaf set, chains and special contexts."""
    seen = set()

    def emit(block):
        t = tuple(block)
        if t not in seen:
            seen.add(t)
            return True
        return False

    leaves1 = [X, Y] + [C(v) for v in BOUNDARY]
    # --- consuming forms (operands taken from the input stack directly)
    for op in UNARY:
        for b in ([I(op)], [I("DUP1"), I(op)]):
            if emit(b):
                yield b
        for v in BOUNDARY:
            b = [P(v), I(op)]
            if emit(b):
                yield b
    for op in BINARY:
        forms = [[I(op)], [I("DUP1"), I(op)], [I("SWAP1"), I(op)], [I("DUP2"), I(op)]]
        for v in BOUNDARY:
            forms.append([P(v), I(op)])
            forms.append([P(v), I("SWAP1"), I(op)])
            forms.append([P(v), I("DUP1"), I(op)])
            for w in BOUNDARY:
                forms.append([P(w), P(v), I(op)])
        # further constants around the side conditions of rules (power-of-two tests, 160-bit masks): cheap forms only
        for v in EXTRA_CONSTS:
            forms.append([P(v), I(op)])
            forms.append([P(v), I("SWAP1"), I(op)])
            forms.append(compile_copy([(op, C(v), X)], 2))
            forms.append(compile_copy([(op, X, C(v))], 2))
        for b in forms:
            if emit(b):
                yield b
    small = [0, 1, 2, MASK]
    for op in TERNARY:
        forms = [[I(op)], [I("DUP1"), I("DUP1"), I(op)]]
        for a, b_, c in itertools.product([None] + small, repeat=3):
            code = []
            for v in (c, b_, a):  # a ends on top
                if v is not None:
                    code.append(P(v))
            # variables interleaved: when an operand is None it comes from the input stack *below* the pushes,
            # which changes the operand order; use the copy compiler for the exact placement instead
            ex = (op, X if a is None else C(a), Y if b_ is None else C(b_), Z if c is None else C(c))
            code = compile_copy([ex], 3)
            forms.append(code)
        for b in forms:
            if emit(b):
                yield b
    # --- copying forms: result left above untouched inputs, and consumed by a follow-up
    for op in UNARY:
        for a in leaves1:
            b = compile_copy([(op, a)], 2)
            if emit(b):
                yield b
    for op in BINARY:
        for a, c in itertools.product(leaves1, repeat=2):
            b = compile_copy([(op, a, c)], 2)
            if emit(b):
                yield b
    # chains
    for op in ("ISZERO", "NOT"):
        for n in range(2, 7):
            for base in ([], [I("DUP1")], [P(0)], [P(1)], [P(MASK)], [I("LT")], [I("EQ")], [I("SUB")], [I("XOR")],
                         [I("GT")]):
                b = base + [I(op)] * n
                if emit(b):
                    yield b
    for a, c in itertools.product(("ISZERO", "NOT"), repeat=2):
        for base in ([], [P(0)], [P(MASK)]):
            b = base + [I(a), I(c), I(a)]
            if emit(b):
                yield b
    # special contexts
    for env in ("ADDRESS", "ORIGIN", "CALLER", "COINBASE", "CALLVALUE"):
        for mask in (A160, MASK, (1 << 160), (1 << 159) - 1, 0xFF):
            for b in ([I(env), P(mask), I("AND")], [P(mask), I(env), I("AND")]):
                if emit(b):
                    yield b
    for b in ([I("ADDRESS"), I("BALANCE")], [I("ADDRESS"), P(A160), I("AND"), I("BALANCE")],
              [I("CALLER"), I("BALANCE")], [I("ADDRESS"), I("DUP1"), I("BALANCE"), I("SWAP1"), I("BALANCE")],
              [I("SELFBALANCE"), I("ADDRESS"), I("BALANCE"), I("SUB")]):
        if emit(b):
            yield b
    if level < 2:
        # a thin layer of pairs so that context rules are reached in the quick tier as well
        inner_ops = ["ADD", "SUB", "MUL", "DIV", "AND", "OR", "XOR", "SHL", "SHR", "LT", "GT", "EQ", "ISZERO", "NOT",
                     "EXP"]
        # the signed/remaining operators share branches with their unsigned twins in the rule code (GT/SGT, LT/SLT,
        # DIV/SDIV, SHR/SAR, MOD/SMOD): they get the same inner positions, under the outer operators below
        inner_ops += [o for o in BINARY if o not in inner_ops]
        outer_ops = ["ISZERO", "NOT", "AND", "OR", "MUL", "DIV", "SHL", "SHR", "EQ", "SUB", "ADD", "EXP", "XOR"]
        leaves2 = [X, Y, C(0), C(1), C(MASK)]
    else:
        inner_ops = UNARY + BINARY
        outer_ops = UNARY + BINARY
        leaves2 = [X, Y, C(0), C(1), C(2), C(MASK), C(A160), C(B255)]
    for op1 in inner_ops:
        if op1 in UNARY:
            inners = [(op1, a) for a in leaves2[:2]]
        else:
            inners = [(op1, a, c) for a, c in itertools.product(leaves2, repeat=2)
                      if not (a[0] == "c" and c[0] == "c")]
        for inner in inners:
            for op2 in outer_ops:
                if op2 in UNARY:
                    outers = [(op2, inner)]
                else:
                    outers = []
                    for o in leaves2 + [inner]:
                        outers.append((op2, inner, o))
                        outers.append((op2, o, inner))
                for e in outers:
                    b = compile_copy([e], 2)
                    if b is not None and emit(b):
                        yield b
    if level >= 2:
        # triples around the shift/mul/div and iszero/comparison rules
        for sh in ("SHL", "SHR"):
            for op2 in ("MUL", "DIV", "AND", "OR", "SHL", "SHR", "MOD"):
                for k in (0, 1, 2, 255, 256):
                    for o in (X, Y, C(1), C(2), C(0)):
                        for e in ((op2, (sh, C(k), X), o), (op2, o, (sh, C(k), X)),
                                  (op2, (sh, C(k), C(1)), o), (op2, o, (sh, C(k), C(1))),
                                  (op2, (sh, X, C(1)), o), (op2, o, (sh, X, C(1)))):
                            b = compile_copy([e], 2)
                            if emit(b):
                                yield b
        for cmp_ in ("LT", "GT", "SLT", "SGT", "EQ", "SUB", "XOR"):
            for n in (1, 2, 3):
                e = (cmp_, X, Y)
                for _ in range(n):
                    e = ("ISZERO", e)
                for wrap in (e, ("ISZERO", ("EQ", C(0), e)), ("EQ", e, C(0)), ("EQ", C(1), e), ("LT", C(0), e),
                             ("GT", e, C(0))):
                    b = compile_copy([wrap], 2)
                    if emit(b):
                        yield b
        for base in (0, 1, 2, 4, 256, MASK):
            for ex in (X, C(0), C(1), C(2), C(255), C(256), C(MASK)):
                b = compile_copy([("EXP", C(base), ex)], 1)
                if emit(b):
                    yield b
        # results reused twice, and used both as operand and as final stack element
        for op1 in BINARY:
            for a in (C(0), C(1), C(MASK), Y):
                inner = compile_copy([(op1, X, a)], 2)
                for tail in ([I("DUP1")], [I("DUP1"), I("ADD")], [I("DUP1"), I("ISZERO")], [I("DUP1"), I("MUL")]):
                    b = inner + tail
                    if emit(b):
                        yield b


def consume_family():
    """Operator pairs over BOTH inputs, with the inputs consumed: the result replaces x and y, so the operand order
    found on the stack is the wrong one for half of the family and the right sequence needs a SWAP (a specification
    that wrongly allows swapping the operands of a non-commutative result shows here and nowhere else)."""
    seen = set()
    ops2 = ["ADD", "SUB", "MUL", "DIV", "SDIV", "MOD", "AND", "OR", "XOR", "SHL", "SHR", "SAR", "LT", "GT", "SLT",
            "SGT", "EQ", "EXP", "BYTE", "SIGNEXTEND"]
    leaves = [X, Y, C(0), C(1), C(MASK)]
    outer_leaves = [X, Y, C(0), C(1)]
    tail = [I("SWAP2"), I("POP"), I("POP")]

    def has(e, v):
        return e == v or (e[0] not in ("in", "c", "z") and any(has(a, v) for a in e[1:]))

    exprs = []
    for op in ops2:
        exprs += [(op, X, Y), (op, Y, X)]
    for op1 in ops2:
        for a, c in itertools.product(leaves, repeat=2):
            if a[0] == "c" and c[0] == "c":
                continue
            inner = (op1, a, c)
            for op2 in ops2 + ["ISZERO", "NOT"]:
                if op2 in ("ISZERO", "NOT"):
                    exprs.append((op2, inner))
                    continue
                for o in outer_leaves:
                    exprs.append((op2, inner, o))
                    exprs.append((op2, o, inner))
    for e in exprs:
        if not (has(e, X) and has(e, Y)):
            continue
        b = compile_copy([e], 2)
        if b is None:
            continue
        b = b + tail
        t = tuple(b)
        if t not in seen:
            seen.add(t)
            yield b


def pseudo_family():
    """Pseudo pushes with operand spellings on both sides of every reading (decimal/hexadecimal, one/two digits,
    letters) inside blocks the optimizer regenerates, alone and in pairs of different kinds."""
    kinds = ["PUSH [$]", "PUSH #[$]", "PUSH data", "PUSHIMMUTABLE", "PUSHLIB", "PUSH [tag]"]
    vals = ["0", "9", "0a", "10", "12", "a1", "ff", "100", "1f"]
    seen = set()
    out = []

    def emit(b):
        t = tuple(b)
        if t not in seen:
            seen.add(t)
            out.append(b)

    for k in kinds:
        for v in vals:
            if k == "PUSH [tag]" and not v.isdigit():
                continue
            p = I(k, v)
            emit([p, I("SWAP1"), I("POP")])
            emit([P(0), p, I("ADD")])
            emit([p, I("DUP1"), I("POP"), I("SWAP1"), I("POP")])
            emit([P(1), P(1), I("ADD"), p, I("MSTORE")])
            emit([p, p, I("SWAP1"), I("POP")])
    for k1, k2 in itertools.permutations(kinds, 2):
        for v1, v2 in (("0a", "10"), ("10", "0a"), ("12", "c"), ("a", "10"), ("10", "16")):
            if "[tag]" in k1 + k2 and not (v1.isdigit() and v2.isdigit()):
                continue
            emit([I(k1, v1), I(k2, v2), I("SWAP1"), I("SWAP2"), I("POP")])
            emit([P(0), I(k1, v1), I("ADD"), I(k2, v2), I("SWAP1")])
    return out


def vocabulary_family():
    """Every opcode of the reference vocabulary in a handful of minimal contexts (alone, twice, result dropped,
    result duplicated, after a swap of its operands): no operator is reachable only through a bigger family that
    happens to leave it out."""
    from . import evm_ref as E
    out = []
    seen = set()
    for op in sorted(E.ARITY):
        if op.startswith(("DUP", "SWAP", "PUSH")) or op in ("POP", "JUMPDEST", "tag"):
            continue
        a, r = E.ARITY[op]
        arg = "a1" if op == "ASSIGNIMMUTABLE" else None
        ins = I(op, arg)
        forms = [[ins], [ins, ins], [I("DUP1"), ins]]
        if r == 1:
            forms += [[ins, I("POP")], [ins, I("DUP1")], [ins, I("ISZERO")], [ins, ins, I("ADD")] if a == 0 else [ins, P(0), I("ADD")]]
        if a >= 2:
            forms += [[I("SWAP1"), ins], [I("DUP2"), I("DUP2"), ins], [P(0), ins], [P(1), P(0), ins] if a == 2 else [P(0), P(0), ins]]
        if a == 1:
            forms += [[P(0), ins], [P(1), ins], [P(MASK), ins]]
        for b in forms:
            if any(o in E.TERMINAL for o, _ in b[:-1]):
                continue  # a terminal instruction ends the block: what follows is another block
            try:
                E.need_delta(b)
            except Exception:
                continue
            t = tuple(b)
            if t not in seen:
                seen.add(t)
                out.append(b)
    return out


def cse_family():
    """Two applications of the SAME operator in one block, both results live, whose operand tuples share some
    positions and differ in others (including: same operands in another order, same leading operands and a different
    last one): what the common-subexpression lookup may and may not merge."""
    W = ("in", 3)
    leaves = [X, Y, Z, W, C(1)]
    out = []
    seen = set()

    def emit(es, n):
        b = compile_copy(es, n)
        if b is None:
            return
        for tail in ([], [I("SWAP1")], [I("ADD")]):
            t = tuple(b + tail)
            if t not in seen:
                seen.add(t)
                out.append(b + tail)

    for op in UNARY:
        for a in leaves[:2]:
            emit([(op, X), (op, a)], 4)
    for op in BINARY:
        for a, b_ in itertools.product(leaves, repeat=2):
            emit([(op, X, Y), (op, a, b_)], 4)
    for op in TERNARY:
        for a, b_, c in itertools.product(leaves, repeat=3):
            emit([(op, X, Y, Z), (op, a, b_, c)], 4)
    return out


def sibling_family():
    """An outer operator over two applications of ONE inner operator that share an operand (distributive-style
    rules), alone and with a second consumer of the first inner result (a rule that rewrites the inner instruction in
    place is only sound when nothing else reads it)."""
    W = ("in", 3)
    out = []
    seen = set()

    def emit(es):
        b = compile_copy(es, 4)
        if b is None:
            return
        t = tuple(b)
        if t not in seen:
            seen.add(t)
            out.append(b)

    for op1 in BINARY:
        in1 = (op1, X, Y)
        for in2 in ((op1, X, Z), (op1, Z, Y), (op1, Y, X), (op1, X, Y), (op1, Z, X)):
            for op2 in BINARY:
                e = (op2, in1, in2)
                emit([e])
                emit([e, (op2, in1, W)])
                emit([e, ("ADD", W, in1)])
        for op2 in UNARY:
            emit([(op2, in1), ("ADD", in1, Z)])
            emit([(op2, in1), (op1, in1, Z)])
    return out


ADDR9 = [C(0), C(1), C(31), C(32), C(33), X, ("ADD", C(1), X), ("ADD", C(32), X), Y]
ADDR6 = [C(0), C(1), C(32), X, ("ADD", C(1), X), Y]
KEYS4 = [C(0), C(1), X, Y]
KEYS3 = [C(0), X, Y]


def mem_ops(reduced):
    addrs = ADDR6 if reduced else ADDR9
    keys = KEYS3 if reduced else KEYS4
    vals = [Z] if reduced else [Z, C(7)]
    lens = [C(32)] if reduced else [C(32), C(64), C(1)]
    ops = []
    for a in addrs:
        for v in vals:
            ops.append(("MSTORE", a, v))
            ops.append(("MSTORE8", a, v))
        ops.append(("MLOAD", a))
        for ln in lens:
            ops.append(("KECCAK256", a, ln))
    for k in keys:
        for v in vals:
            ops.append(("SSTORE", k, v))
        ops.append(("SLOAD", k))
    return ops


def mem_family(k=2):
    """Sequences of k memory/storage operations with address slots over constants {0,1,31,32,33} and symbolic
    terms {x, x+1, x+32, y}; loads/hashes leave their result on the stack (so they are observable)."""
    ops = mem_ops(reduced=(k >= 3))
    seen = set()
    for seq in itertools.product(ops, repeat=k):
        b = compile_copy(list(seq), 3)
        if b is None:
            continue
        t = tuple(b)
        if t in seen:
            continue
        seen.add(t)
        yield b
    if k <= 2:
        # value of a later store is the result of an earlier load (forwarding chains)
        for ld, st in (("MLOAD", "MSTORE"), ("SLOAD", "SSTORE"), ("MLOAD", "MSTORE8")):
            for a, c in itertools.product(ADDR9 if ld == "MLOAD" else KEYS4, repeat=2):
                b = compile_copy([(st, a, Z), (st, c, (ld, a))], 3)
                t = tuple(b)
                if t not in seen:
                    seen.add(t)
                    yield b
                b = compile_copy([(st, a, (ld, c))], 3)
                t = tuple(b)
                if t not in seen:
                    seen.add(t)
                    yield b


def sandwich_family():
    """Three memory/storage operations where the middle one may invalidate what the outer ones have in common:
    load-store-load, store-load-store and store-store-load, over the full address slot sets (one value slot)."""
    mem_loads = [("MLOAD", a) for a in ADDR9] + [("KECCAK256", a, C(32)) for a in ADDR9]
    mem_stores = [(op, a, Z) for op in ("MSTORE", "MSTORE8") for a in ADDR9]
    sto_loads = [("SLOAD", k) for k in KEYS4]
    sto_stores = [("SSTORE", k, v) for k in KEYS4 for v in (Z, C(7))]
    seen = set()
    for loads, stores in ((mem_loads, mem_stores), (sto_loads, sto_stores)):
        pats = itertools.chain(
            ((a, b, c) for a in loads for b in stores for c in loads),
            ((a, b, c) for a in stores for b in loads for c in stores),
            ((a, b, c) for a in stores for b in stores for c in loads))
        for trio in pats:
            b = compile_copy(list(trio), 3)
            if b is None:
                continue
            t = tuple(b)
            if t not in seen:
                seen.add(t)
                yield b


def three_store_family():
    """Three stores with distinct constant values: "may overlap" is not transitive, so the third store can depend on
    two earlier stores that are independent of each other (0x00 / 0x28 / 0x14; keys 0 / 1 / x) and every pair needs
    its own ordering edge."""
    addrs = [C(0), C(0x14), C(0x20), C(0x28), C(0x40), X, ("ADD", C(32), X), Y]
    vals = [C(0xa1a1), C(0xb2b2), C(0xc3c3)]
    kinds = [("MSTORE", "MSTORE", "MSTORE"), ("MSTORE", "MSTORE", "MSTORE8"), ("MSTORE8", "MSTORE", "MSTORE"),
             ("MSTORE", "MSTORE8", "MSTORE")]
    seen = set()
    for ks in kinds:
        for a in itertools.product(addrs, repeat=3):
            b = compile_copy([(ks[i], a[i], vals[i]) for i in range(3)], 3)
            if b is not None and tuple(b) not in seen:
                seen.add(tuple(b))
                yield b
    for k in itertools.product(KEYS4 + [("ADD", C(1), X)], repeat=3):
        b = compile_copy([("SSTORE", k[i], vals[i]) for i in range(3)], 3)
        if b is not None and tuple(b) not in seen:
            seen.add(tuple(b))
            yield b


def live_loads_family():
    """Two (or three) loaded values that feed a later store and are still live afterwards (left on the stack)."""
    loads = [("MLOAD", X), ("MLOAD", Y), ("SLOAD", X), ("SLOAD", Y), ("KECCAK256", X, C(32)), ("MLOAD", C(0)),
             ("SLOAD", C(1))]
    stores = ["MSTORE", "SSTORE", "MSTORE8"]
    seen = set()
    for l1, l2 in itertools.permutations(loads, 2):
        for st in stores:
            for shape in (0, 1, 2):
                if shape == 0:      # store(addr = l1, value = l2), both stay
                    exprs = [l1, l2, (st, l1, l2)]
                elif shape == 1:    # store(addr = z, value = l1 + l2), both stay
                    exprs = [l1, l2, (st, Z, ("ADD", l1, l2))]
                else:               # two stores, each fed by one load
                    exprs = [l1, l2, (st, l1, Z), (st, Z, l2)]
                b = compile_copy(exprs, 3)
                if b is None:
                    continue
                t = tuple(b)
                if t not in seen:
                    seen.add(t)
                    yield b


def split_rule_family():
    """A rule-firing prefix, a splitting instruction (or a store, which splits under -storage / -partition) and a
    short suffix: bookkeeping that must be reset between the sub-blocks of one block."""
    prefixes = [[P(0), I("ADD")], [I("DUP1"), I("SUB")], [P(1), I("MUL")], [I("ISZERO"), I("ISZERO"), I("ISZERO")],
                [P(0), I("DUP2"), I("ADD")], [P(3), P(4), I("ADD")], [I("DUP1"), I("XOR")], [I("NOT"), I("NOT")], []]
    splits = [[I("GAS")], [P(5), I("SSTORE")], [P(0), I("MSTORE")], [I("DUP1"), I("DUP1"), I("LOG0")],
              [I("SSTORE")], [I("DUP2"), I("MSTORE")]]
    suffixes = [[I("CALLER"), I("ADDRESS")], [I("CALLER"), I("ADDRESS"), I("SSTORE")], [P(1), P(2)], [I("DUP1"), I("ADD")],
                [P(1), I("ADD")], [I("CALLER")], [I("POP")], [I("DUP1")], [P(0), I("ADD")], [I("SWAP1")],
                [I("CALLER"), I("DUP1"), I("EQ")], [P(7), I("DUP2"), I("MSTORE")]]
    seen = set()
    for a, b, c in itertools.product(prefixes, splits, suffixes):
        for rep in (1, 2):
            blk = a + (b + c) * rep
            t = tuple(blk)
            if t not in seen:
                seen.add(t)
                yield blk
