"""E2 -- reference EVM for one basic block (written from the Yellow Paper / EIPs, shares no code with the repo).

Instruction = (op, arg): op is the solc-assembly name ("PUSH", "DUP3", "ADD", "PUSH [tag]", ...), arg is an int for
PUSH, a string for pseudo pushes / tag / ASSIGNIMMUTABLE, else None.

Observables of a run: trace of externally visible operations, halt kind, final stack, memory content at every byte
ever written by either side, storage.  Gas is *not* an observable (GAS returns a token); a metered gas figure is
accumulated on the side for C08.
"""
from .keccak import keccak256

M = 1 << 256
MASK = M - 1
SIGN = 1 << 255

# name -> (pops, pushes)
ARITY = {
    "STOP": (0, 0), "ADD": (2, 1), "MUL": (2, 1), "SUB": (2, 1), "DIV": (2, 1), "SDIV": (2, 1), "MOD": (2, 1),
    "SMOD": (2, 1), "ADDMOD": (3, 1), "MULMOD": (3, 1), "EXP": (2, 1), "SIGNEXTEND": (2, 1),
    "LT": (2, 1), "GT": (2, 1), "SLT": (2, 1), "SGT": (2, 1), "EQ": (2, 1), "ISZERO": (1, 1), "AND": (2, 1),
    "OR": (2, 1), "XOR": (2, 1), "NOT": (1, 1), "BYTE": (2, 1), "SHL": (2, 1), "SHR": (2, 1), "SAR": (2, 1),
    "KECCAK256": (2, 1), "SHA3": (2, 1),
    "ADDRESS": (0, 1), "BALANCE": (1, 1), "ORIGIN": (0, 1), "CALLER": (0, 1), "CALLVALUE": (0, 1),
    "CALLDATALOAD": (1, 1), "CALLDATASIZE": (0, 1), "CALLDATACOPY": (3, 0), "CODESIZE": (0, 1), "CODECOPY": (3, 0),
    "GASPRICE": (0, 1), "EXTCODESIZE": (1, 1), "EXTCODECOPY": (4, 0), "RETURNDATASIZE": (0, 1),
    "RETURNDATACOPY": (3, 0), "EXTCODEHASH": (1, 1), "BLOCKHASH": (1, 1), "COINBASE": (0, 1), "TIMESTAMP": (0, 1),
    "NUMBER": (0, 1), "DIFFICULTY": (0, 1), "PREVRANDAO": (0, 1), "GASLIMIT": (0, 1), "CHAINID": (0, 1),
    "SELFBALANCE": (0, 1), "BASEFEE": (0, 1),
    "POP": (1, 0), "MLOAD": (1, 1), "MSTORE": (2, 0), "MSTORE8": (2, 0), "SLOAD": (1, 1), "SSTORE": (2, 0),
    "JUMP": (1, 0), "JUMPI": (2, 0), "GAS": (0, 1), "JUMPDEST": (0, 0), "tag": (0, 0),
    "LOG0": (2, 0), "LOG1": (3, 0), "LOG2": (4, 0), "LOG3": (5, 0), "LOG4": (6, 0),
    "CREATE": (3, 1), "CALL": (7, 1), "CALLCODE": (7, 1), "RETURN": (2, 0), "DELEGATECALL": (6, 1),
    "CREATE2": (4, 1), "STATICCALL": (6, 1), "REVERT": (2, 0), "INVALID": (0, 0), "SELFDESTRUCT": (1, 0),
    "ASSIGNIMMUTABLE": (2, 0),
    "PUSH": (0, 1), "PUSH [tag]": (0, 1), "PUSH data": (0, 1), "PUSH [$]": (0, 1), "PUSH #[$]": (0, 1),
    "PUSHLIB": (0, 1), "PUSHIMMUTABLE": (0, 1), "PUSHSIZE": (0, 1), "PUSHDEPLOYADDRESS": (0, 1),
}
for _k in range(1, 17):
    ARITY["DUP%d" % _k] = (_k, _k + 1)
    ARITY["SWAP%d" % _k] = (_k + 1, _k + 1)

TERMINAL = {"JUMP", "JUMPI", "STOP", "RETURN", "REVERT", "INVALID", "SELFDESTRUCT"}
ENV0 = ["ADDRESS", "ORIGIN", "CALLER", "CALLVALUE", "CALLDATASIZE", "CODESIZE", "GASPRICE", "RETURNDATASIZE",
        "COINBASE", "TIMESTAMP", "NUMBER", "DIFFICULTY", "PREVRANDAO", "GASLIMIT", "CHAINID", "SELFBALANCE", "BASEFEE"]
PSEUDO = {"PUSH [tag]", "PUSH data", "PUSH [$]", "PUSH #[$]", "PUSHLIB", "PUSHIMMUTABLE", "PUSHSIZE",
          "PUSHDEPLOYADDRESS"}

MEM_LIMIT = 1 << 32
HASH_LIMIT = 1 << 12


class OOG(Exception):
    """The run needs memory no real machine can pay for: the state is excluded from comparison."""


class Underflow(Exception):
    pass


class BadInstr(Exception):
    pass


def need_delta(block):
    """(minimal input stack depth, height change) of a straight-line block; stops after a terminal instruction."""
    h = 0
    need = 0
    for op, _ in block:
        a = ARITY.get(op)
        if a is None:
            raise BadInstr(op)
        pops, pushes = a
        if pops > h + need:
            need = pops - h
        h += pushes - pops
        if op in TERMINAL:
            break
    return need, h


def _mix(*xs):
    """Deterministic 256-bit value from a tuple of ints/strings (injective-looking oracle for opaque environment)."""
    h = 0x9E3779B97F4A7C15F39CC0605CEDC8341082276BF3A27251F86C6A11D0C18E95
    for x in xs:
        if isinstance(x, str):
            x = int.from_bytes(x.encode(), "big") + (len(x) << 300)
        h = (h ^ (x & MASK) ^ (x >> 256)) * 0x100000001B3B2C4D5E6F708192A3B4C5D6E7F8091A2B3C4D5E6F7081 % M
        h ^= h >> 131
    return h & MASK


def _signed(x):
    return x - M if x & SIGN else x


class Env:
    """Environment record: distinct constants; any of them can be overridden per state."""

    def __init__(self, salt=0, overrides=None):
        self.salt = salt
        self.v = {}
        for i, n in enumerate(ENV0):
            self.v[n] = _mix("env", n, salt)
        # addresses are 160-bit values in reality
        for n in ("ADDRESS", "ORIGIN", "CALLER", "COINBASE"):
            self.v[n] &= (1 << 160) - 1
        self.v["CALLDATASIZE"] = 68 + salt % 7
        self.v["CODESIZE"] = 1234
        self.v["RETURNDATASIZE"] = 0
        self.v["CHAINID"] = 1
        self.v["PREVRANDAO"] = self.v["DIFFICULTY"]
        if overrides:
            self.v.update(overrides)


_ENV_CACHE = {}


def _env_for(salt, over):
    if over:
        return Env(salt, over)
    e = _ENV_CACHE.get(salt)
    if e is None:
        e = _ENV_CACHE[salt] = Env(salt)
    return e


class State:
    """Initial machine state: stack words (top last), salts selecting memory / storage / environment contents."""

    def __init__(self, stack, salt=0, env_over=None, mem_zero=False, sto_zero=False):
        self.stack = list(stack)
        self.salt = salt
        self.env_over = env_over
        self.mem_zero = mem_zero
        self.sto_zero = sto_zero

    def key(self):
        return {"stack": [hex(x) for x in self.stack], "salt": self.salt, "env": self.env_over,
                "mem_zero": self.mem_zero, "sto_zero": self.sto_zero}


class Result:
    __slots__ = ("trace", "halt", "stack", "mem", "sto", "gas", "epoch")

    def observable(self):
        return (self.halt, tuple(self.trace), tuple(self.stack))


class _Everything:
    def __contains__(self, _x):
        return True

    def add(self, _x):
        pass


def run(block, state, gas_meter=False, shared=None):
    """Execute `block` from `state`.  Returns Result; raises OOG / Underflow.
    `block` may be a generator; if `shared` is given, shared["st"] is the live machine stack, so a generator can
    read the results of the instructions it has issued (used by the specification evaluator)."""
    env = _env_for(state.salt, state.env_over)
    salt = state.salt
    st = list(state.stack)
    if shared is not None:
        shared["st"] = st
    mem = {}  # address -> byte, only written bytes
    sto = {}  # key -> value, only written keys (tagged with the epoch of the write)
    trace = []
    counters = {"gas": 0, "call": 0}
    epoch = [0]  # storage / environment havoc epoch, bumped by every external call or creation
    msize = [0]
    warm_slots = set()
    warm_addr = set()
    if gas_meter == "warm":
        # flat access pricing: every slot and address already accessed (used by C08 to tell a regression that only
        # exists because a removed access moved its cold surcharge to a later access of the same slot)
        warm_slots = warm_addr = _Everything()
    gas = [0]
    sto_orig = {}

    def mem0(a):
        if state.mem_zero:
            return 0
        return ((167 * a + 13 + salt * 31) % 251 + 1) & 0xFF

    def sto0(k):
        if epoch[0] == 0 and state.sto_zero:
            return 0
        return _mix("sto", k, salt, epoch[0])

    def touch(off, size):
        if size == 0:
            return
        if off + size > MEM_LIMIT:
            raise OOG()
        if gas_meter:
            words = (off + size + 31) // 32
            if words > msize[0]:
                def c(w):
                    return 3 * w + w * w // 512
                gas[0] += c(words) - c(msize[0])
                msize[0] = words

    def mread(off, size):
        touch(off, size)
        if size > (1 << 16):
            raise OOG()
        return bytes(mem[a] if a in mem else mem0(a) for a in range(off, off + size))

    def mwrite(off, data):
        touch(off, len(data))
        for i, b in enumerate(data):
            mem[off + i] = b

    def mwrite_fn(off, size, fn):
        touch(off, size)
        if size > (1 << 16):
            raise OOG()
        for i in range(size):
            mem[off + i] = fn(i)

    def sread(k):
        v = sto.get(k)
        if v is not None and v[1] == epoch[0]:
            return v[0]
        return sto0(k)

    def sto_digest():
        """effective storage changes visible to a callee (re-entrancy): part of the call event."""
        return tuple(sorted((k, v[0]) for k, v in sto.items() if v[1] == epoch[0] and v[0] != sto0(k)))

    halt = "fall"
    for op, arg in block:
        a = ARITY.get(op)
        if a is None:
            raise BadInstr(op)
        pops, pushes = a
        if len(st) < pops:
            raise Underflow(op)
        if gas_meter:
            gas[0] += _static_gas(op, arg)
        if op == "PUSH":
            st.append(arg & MASK)
            continue
        if op.startswith("DUP"):
            st.append(st[-int(op[3:])])
            continue
        if op.startswith("SWAP"):
            k = int(op[4:])
            st[-1], st[-1 - k] = st[-1 - k], st[-1]
            continue
        if op == "POP":
            st.pop()
            continue
        if op in ("tag", "JUMPDEST"):
            continue
        args = [st.pop() for _ in range(pops)]
        r = None
        if op == "ADD":
            r = (args[0] + args[1]) & MASK
        elif op == "MUL":
            r = (args[0] * args[1]) & MASK
        elif op == "SUB":
            r = (args[0] - args[1]) & MASK
        elif op == "DIV":
            r = args[0] // args[1] if args[1] else 0
        elif op == "SDIV":
            x, y = _signed(args[0]), _signed(args[1])
            if y == 0:
                r = 0
            else:
                q = abs(x) // abs(y)
                r = (q if (x < 0) == (y < 0) else -q) & MASK
        elif op == "MOD":
            r = args[0] % args[1] if args[1] else 0
        elif op == "SMOD":
            x, y = _signed(args[0]), _signed(args[1])
            if y == 0:
                r = 0
            else:
                q = abs(x) % abs(y)
                r = (q if x >= 0 else -q) & MASK
        elif op == "ADDMOD":
            r = (args[0] + args[1]) % args[2] if args[2] else 0
        elif op == "MULMOD":
            r = (args[0] * args[1]) % args[2] if args[2] else 0
        elif op == "EXP":
            r = pow(args[0], args[1], M)
            if gas_meter:
                gas[0] += 50 * ((args[1].bit_length() + 7) // 8)
        elif op == "SIGNEXTEND":
            b, x = args
            if b < 31:
                bit = 8 * b + 7
                mask = (1 << (bit + 1)) - 1
                r = (x | (MASK ^ mask)) if (x >> bit) & 1 else (x & mask)
            else:
                r = x
        elif op == "LT":
            r = int(args[0] < args[1])
        elif op == "GT":
            r = int(args[0] > args[1])
        elif op == "SLT":
            r = int(_signed(args[0]) < _signed(args[1]))
        elif op == "SGT":
            r = int(_signed(args[0]) > _signed(args[1]))
        elif op == "EQ":
            r = int(args[0] == args[1])
        elif op == "ISZERO":
            r = int(args[0] == 0)
        elif op == "AND":
            r = args[0] & args[1]
        elif op == "OR":
            r = args[0] | args[1]
        elif op == "XOR":
            r = args[0] ^ args[1]
        elif op == "NOT":
            r = args[0] ^ MASK
        elif op == "BYTE":
            i, x = args
            r = (x >> (8 * (31 - i))) & 0xFF if i < 32 else 0
        elif op == "SHL":
            sh, x = args
            r = (x << sh) & MASK if sh < 256 else 0
        elif op == "SHR":
            sh, x = args
            r = x >> sh if sh < 256 else 0
        elif op == "SAR":
            sh, x = args
            sx = _signed(x)
            if sh < 256:
                r = (sx >> sh) & MASK
            else:
                r = MASK if sx < 0 else 0
        elif op in ("KECCAK256", "SHA3"):
            off, size = args
            if size > HASH_LIMIT:
                raise OOG()
            if size and off >= MEM_LIMIT:
                raise OOG()
            data = mread(off, size)
            r = int.from_bytes(keccak256(data), "big")
            if gas_meter:
                gas[0] += 6 * ((size + 31) // 32)
        elif op in env.v:
            r = env.v[op]
            if op in ("RETURNDATASIZE", "SELFBALANCE") and epoch[0]:
                r = _mix("env", op, salt, epoch[0]) % (1 << 16 if op == "RETURNDATASIZE" else M)
        elif op in ("BALANCE", "EXTCODESIZE", "EXTCODEHASH", "BLOCKHASH", "CALLDATALOAD"):
            x = args[0]
            if op in ("BALANCE", "EXTCODESIZE", "EXTCODEHASH"):
                x &= (1 << 160) - 1
                if gas_meter:
                    gas[0] += 100 if x in warm_addr else 2600
                    warm_addr.add(x)
                r = _mix("env", op, x, salt, epoch[0])
                # the balance of the executing account must agree with SELFBALANCE
                if op == "BALANCE" and x == env.v["ADDRESS"]:
                    r = env.v["SELFBALANCE"] if not epoch[0] else _mix("env", "SELFBALANCE", salt, epoch[0])
            elif op == "CALLDATALOAD":
                if x >= env.v["CALLDATASIZE"] + 64:
                    r = 0
                else:
                    r = int.from_bytes(bytes(_cd(salt, x + i, env.v["CALLDATASIZE"]) for i in range(32)), "big")
            else:
                r = _mix("env", op, x, salt)
        elif op == "MLOAD":
            off = args[0]
            if off + 32 > MEM_LIMIT:
                raise OOG()
            r = int.from_bytes(mread(off, 32), "big")
        elif op == "MSTORE":
            off, v = args
            if off + 32 > MEM_LIMIT:
                raise OOG()
            mwrite(off, v.to_bytes(32, "big"))
        elif op == "MSTORE8":
            off, v = args
            if off + 1 > MEM_LIMIT:
                raise OOG()
            mwrite(off, bytes([v & 0xFF]))
        elif op == "SLOAD":
            k = args[0]
            r = sread(k)
            if gas_meter:
                gas[0] += 100 if k in warm_slots else 2100
                warm_slots.add(k)
        elif op == "SSTORE":
            k, v = args
            if gas_meter:
                cur = sread(k)
                orig = sto_orig.setdefault(k, cur)
                if k not in warm_slots:
                    gas[0] += 2100
                    warm_slots.add(k)
                if v == cur:
                    gas[0] += 100
                elif cur == orig:
                    gas[0] += 20000 if orig == 0 else 2900
                else:
                    gas[0] += 100
            sto[k] = (v, epoch[0])
        elif op == "GAS":
            counters["gas"] += 1
            r = _mix("gas-token", counters["gas"])
        elif op in PSEUDO:
            r = _mix("pseudo", op, "" if arg is None else str(arg))
            if op in ("PUSH [tag]", "PUSH data", "PUSH [$]"):
                r &= 0xFFFF
            elif op in ("PUSH #[$]", "PUSHSIZE"):
                r &= 0xFFFFFFFF
            elif op in ("PUSHLIB", "PUSHDEPLOYADDRESS"):
                r &= (1 << 160) - 1
        elif op in ("CALLDATACOPY", "CODECOPY", "RETURNDATACOPY", "EXTCODECOPY"):
            if op == "EXTCODECOPY":
                who, dst, src, size = args
                who &= (1 << 160) - 1
                if gas_meter:
                    gas[0] += 100 if who in warm_addr else 2600
                    warm_addr.add(who)
            else:
                dst, src, size = args
                who = 0
            if size:
                if dst + size > MEM_LIMIT or size > (1 << 16):
                    raise OOG()
                if op == "RETURNDATACOPY":
                    rds = env.v["RETURNDATASIZE"] if not epoch[0] else _mix("env", "RETURNDATASIZE", salt, epoch[0]) % (1 << 16)
                    if src + size > rds:
                        trace.append(("RETURNDATACOPY-OOB",))
                        halt = "exceptional"
                        break
                ep = epoch[0] if op == "RETURNDATACOPY" else 0
                if op == "CALLDATACOPY":
                    cds = env.v["CALLDATASIZE"]
                    mwrite_fn(dst, size, lambda i: _cd(salt, src + i, cds))
                else:
                    mwrite_fn(dst, size, lambda i: _mix("copy", op, who, (src + i) & MASK, salt, ep) & 0xFF)
            if gas_meter:
                gas[0] += 3 * ((size + 31) // 32)
        elif op.startswith("LOG"):
            off, size = args[0], args[1]
            data = mread(off, size) if size else b""
            trace.append((op, tuple(args[2:]), data))
            if gas_meter:
                gas[0] += 8 * size
        elif op in ("CALL", "CALLCODE", "DELEGATECALL", "STATICCALL"):
            if op in ("CALL", "CALLCODE"):
                g, to, val, ioff, isz, ooff, osz = args
            else:
                g, to, ioff, isz, ooff, osz = args
                val = None
            data = mread(ioff, isz) if isz else b""
            counters["call"] += 1
            n = counters["call"]
            # the gas operand is forwarded as it is computed: a GAS token stays recognisable, and equivalence
            # modulo gas metering means the *expression* must be the same
            trace.append((op, g, to, val, data, osz, sto_digest()))
            if osz:
                if ooff + osz > MEM_LIMIT or osz > (1 << 16):
                    raise OOG()
                mwrite_fn(ooff, osz, lambda i: _mix("callout", n, i, salt) & 0xFF)
            if op != "STATICCALL":
                epoch[0] = n + 1000 * salt + 1
            else:
                epoch[0] = epoch[0]  # a static call cannot change state, but return data changes
            r = _mix("callret", n, salt) & 1
        elif op in ("CREATE", "CREATE2"):
            val, off, size = args[0], args[1], args[2]
            data = mread(off, size) if size else b""
            counters["call"] += 1
            n = counters["call"]
            trace.append((op, val, data, sto_digest()) + tuple(args[3:]))
            epoch[0] = n + 1000 * salt + 1
            r = _mix("created", n, salt) & ((1 << 160) - 1)
        elif op in ("RETURN", "REVERT"):
            off, size = args
            data = mread(off, size) if size else b""
            trace.append((op, data))
            halt = op
            break
        elif op == "JUMP":
            trace.append((op, args[0]))
            halt = op
            break
        elif op == "JUMPI":
            trace.append((op, args[0], int(args[1] != 0)))
            halt = op
            break
        elif op == "STOP":
            trace.append((op,))
            halt = op
            break
        elif op == "INVALID":
            trace.append((op,))
            halt = op
            break
        elif op == "SELFDESTRUCT":
            trace.append((op, args[0] & ((1 << 160) - 1)))
            halt = op
            break
        elif op == "ASSIGNIMMUTABLE":
            # solc: assigns immutable `arg` := value, at the code copy located at memory offset; pops (offset, value)
            trace.append((op, str(arg), args[0], args[1]))
        else:
            raise BadInstr(op)
        if pushes:
            st.append(r & MASK)
    res = Result()
    res.trace, res.halt, res.stack, res.mem, res.epoch = trace, halt, st, mem, epoch[0]
    res.sto = {k: v for k, v in sto.items()}
    res.gas = gas[0]
    # effective storage: writes of earlier epochs are unobservable only if havocked; keep (value, epoch) pairs
    return res


def _cd(salt, a, size):
    """calldata byte at index a (zero beyond calldatasize)."""
    if a >= size:
        return 0
    return ((91 * a + 7 + salt * 17) % 253 + 1) & 0xFF


def _static_gas(op, arg):
    if op in ("STOP", "RETURN", "REVERT", "INVALID", "tag", "ASSIGNIMMUTABLE"):
        return 0
    if op == "JUMPDEST":
        return 1
    if op == "PUSH":
        return 2 if arg == 0 and PUSH0_AVAILABLE[0] else 3
    if op in ENV0 or op in ("POP", "GAS", "PC", "MSIZE"):
        return 5 if op == "SELFBALANCE" else 2
    if op.startswith("DUP") or op.startswith("SWAP") or op in PSEUDO:
        return 3
    if op in ("ADD", "SUB", "NOT", "LT", "GT", "SLT", "SGT", "EQ", "ISZERO", "AND", "OR", "XOR", "BYTE",
              "CALLDATALOAD", "MLOAD", "MSTORE", "MSTORE8", "SHL", "SHR", "SAR",
              "CALLDATACOPY", "CODECOPY", "RETURNDATACOPY"):
        return 3
    if op in ("MUL", "DIV", "SDIV", "MOD", "SMOD", "SIGNEXTEND"):
        return 5
    if op in ("ADDMOD", "MULMOD", "JUMP"):
        return 8
    if op == "JUMPI":
        return 10
    if op == "EXP":
        return 10
    if op in ("KECCAK256", "SHA3"):
        return 30
    if op == "BLOCKHASH":
        return 20
    if op.startswith("LOG"):
        return 375 * (1 + int(op[3:]))
    if op in ("CREATE", "CREATE2"):
        return 32000
    if op in ("CALL", "CALLCODE", "DELEGATECALL", "STATICCALL"):
        return 100
    if op == "SELFDESTRUCT":
        return 5000
    return 0  # SLOAD/SSTORE/BALANCE/EXT*: access-dependent, added by the interpreter


PUSH0_AVAILABLE = [True]


def compare(block_a, block_b, state, gas_meter=False):
    """Run both blocks from `state`.  Returns None if indistinguishable, 'oog' if the state is excluded, else a
    dict describing the first difference."""
    try:
        ra = run(block_a, state, gas_meter)
    except OOG:
        return "oog"
    try:
        rb = run(block_b, state, gas_meter)
    except OOG:
        # the original runs within the memory a real machine can pay for, the new block does not
        return {"kind": "oog-introduced"}
    except Underflow as e:
        return {"kind": "underflow", "at": str(e)}
    return compare_results(ra, rb, state)


def compare_results(ra, rb, state):
    """First observable difference between two runs from the same state, or None."""
    if ra.halt != rb.halt:
        return {"kind": "halt", "a": ra.halt, "b": rb.halt}
    if ra.trace != rb.trace:
        return {"kind": "trace", "a": _short(ra.trace), "b": _short(rb.trace)}
    if ra.halt in ("fall", "JUMP", "JUMPI"):
        # execution continues after the block: stack, memory and storage are observable
        if ra.stack != rb.stack:
            return {"kind": "stack", "a": [hex(x) for x in ra.stack], "b": [hex(x) for x in rb.stack]}
        d = _mem_diff(ra, rb, state)
        if d:
            return d
    if ra.halt not in ("REVERT", "INVALID"):
        d = _sto_diff(ra, rb, state)
        if d:
            return d
    return None


def _short(tr):
    out = []
    for ev in tr:
        out.append([x.hex() if isinstance(x, (bytes, bytearray)) else (hex(x) if isinstance(x, int) and x > 9 else x)
                    for x in ev])
    return out


def _mem_diff(ra, rb, state):
    salt = state.salt

    def mem0(a):
        if state.mem_zero:
            return 0
        return ((167 * a + 13 + salt * 31) % 251 + 1) & 0xFF

    for a in set(ra.mem) | set(rb.mem):
        va = ra.mem.get(a)
        vb = rb.mem.get(a)
        if va is None:
            va = mem0(a)
        if vb is None:
            vb = mem0(a)
        if va != vb:
            return {"kind": "memory", "addr": hex(a), "a": va, "b": vb}
    return None


def _sto_diff(ra, rb, state):
    # both sides made the same external calls in the same order (equal traces), so epochs agree
    def eff(r, k):
        v = r.sto.get(k)
        if v is not None and v[1] == r.epoch:
            return v[0]
        if r.epoch == 0 and state.sto_zero:
            return 0
        return _mix("sto", k, state.salt, r.epoch)

    if ra.epoch != rb.epoch:
        return {"kind": "epoch"}
    for k in set(ra.sto) | set(rb.sto):
        if eff(ra, k) != eff(rb, k):
            return {"kind": "storage", "key": hex(k), "a": hex(eff(ra, k)), "b": hex(eff(rb, k))}
    # a write in an earlier epoch that precedes a call is observable by the callee: compare pre-call writes too
    return None
