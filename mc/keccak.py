"""Pure-Python Keccak-256 (the pre-standard padding 0x01 used by the EVM), written from the Keccak reference.
Self-tested against published vectors in mc.selftest."""

_RC = [
    0x0000000000000001, 0x0000000000008082, 0x800000000000808A, 0x8000000080008000,
    0x000000000000808B, 0x0000000080000001, 0x8000000080008081, 0x8000000000008009,
    0x000000000000008A, 0x0000000000000088, 0x0000000080008009, 0x000000008000000A,
    0x000000008000808B, 0x800000000000008B, 0x8000000000008089, 0x8000000000008003,
    0x8000000000008002, 0x8000000000000080, 0x000000000000800A, 0x800000008000000A,
    0x8000000080008081, 0x8000000000008080, 0x0000000080000001, 0x8000000080008008,
]
_ROT = [
    [0, 36, 3, 41, 18],
    [1, 44, 10, 45, 2],
    [62, 6, 43, 15, 61],
    [28, 55, 25, 21, 56],
    [27, 20, 39, 8, 14],
]
_M = (1 << 64) - 1


def _rol(x, n):
    n %= 64
    return ((x << n) | (x >> (64 - n))) & _M if n else x


def _f(a):
    for rnd in range(24):
        c = [a[x][0] ^ a[x][1] ^ a[x][2] ^ a[x][3] ^ a[x][4] for x in range(5)]
        d = [c[(x - 1) % 5] ^ _rol(c[(x + 1) % 5], 1) for x in range(5)]
        a = [[a[x][y] ^ d[x] for y in range(5)] for x in range(5)]
        b = [[0] * 5 for _ in range(5)]
        for x in range(5):
            for y in range(5):
                b[y][(2 * x + 3 * y) % 5] = _rol(a[x][y], _ROT[x][y])
        a = [[b[x][y] ^ ((~b[(x + 1) % 5][y]) & b[(x + 2) % 5][y]) for y in range(5)] for x in range(5)]
        a[0][0] ^= _RC[rnd]
    return a


_cache = {}


def keccak256(data: bytes, pad: int = 0x01) -> bytes:
    r = _cache.get(data) if pad == 0x01 else None
    if r is not None:
        return r
    rate = 136
    p = bytearray(data)
    p.append(pad)
    while len(p) % rate:
        p.append(0)
    p[-1] |= 0x80
    a = [[0] * 5 for _ in range(5)]
    for off in range(0, len(p), rate):
        blk = p[off:off + rate]
        for i in range(rate // 8):
            a[i % 5][i // 5] ^= int.from_bytes(blk[8 * i:8 * i + 8], "little")
        a = _f(a)
    out = b"".join(a[i % 5][i // 5].to_bytes(8, "little") for i in range(4))
    if pad == 0x01 and len(_cache) < 200000:
        _cache[bytes(data)] = out
    return out
