"""Evidence writer, violation / known-finding bookkeeping, replay files."""
import fnmatch
import hashlib
import json
import os
import sys
import time

VERIF = os.path.dirname(os.path.dirname(os.path.abspath(__file__)))
# VERIF_OUT redirects evidence and replay files (used when a check is pointed at a seeded-defect tree with
# GASOL_REPO, so that the committed evidence always comes from runs against /repo itself)
_OUT = os.environ.get("VERIF_OUT", VERIF)
EVIDENCE_DIR = os.path.join(_OUT, "evidence")
REPLAY_DIR = os.path.join(_OUT, "replays")
KNOWN_FILE = os.path.join(VERIF, "known_findings.txt")


class Broken(Exception):
    """The check itself is broken (vacuity guard, replay divergence, self-test failure): exit 2, never a VIOLATION."""


def load_known(prop):
    """known_findings.txt lines:
         known: property=<id> key=<glob> :: <what fails>
         fixed: property=<id> <commit> <what failed>        (suppresses nothing)
    """
    out = []
    if not os.path.exists(KNOWN_FILE):
        return out
    for line in open(KNOWN_FILE):
        line = line.strip()
        if not line.startswith("known:"):
            continue
        head, _, what = line[len("known:"):].partition("::")
        fields = dict(f.split("=", 1) for f in head.split() if "=" in f)
        if fields.get("property") == prop:
            out.append((fields["key"], what.strip()))
    return out


class Check:
    def __init__(self, prop, level, tier=None, seed=None):
        self.prop = prop
        self.level = level
        self.tier = tier or os.environ.get("VERIF_TIER", "quick")
        self.seed = int(seed if seed is not None else os.environ.get("VERIF_SEED", "0") or 0)
        self.t0 = time.time()
        self.cov = {"evaluations": 0, "distinct_nontrivial": 0, "rule": "", "samples": [], "exhaustive": True}
        self.assumptions = []
        self.violations = []  # (signature, replay_path)
        self.known = load_known(prop)
        self.known_hit = {}  # key -> count
        self._seen_sig = {}
        self.max_replays_per_sig = 3
        self.broken = None

    # -- counting
    def add(self, key, n=1):
        self.cov[key] = self.cov.get(key, 0) + n

    def sample(self, obj, cap=8):
        if len(self.cov["samples"]) < cap:
            self.cov["samples"].append(obj)

    # -- harness problems are never violations
    def harness_problem(self, what, detail=None):
        """A unit the harness could not judge: budget overruns (timeout / hang / memory) are listed as skipped;
        an exception inside the harness marks the whole check as broken (exit 2)."""
        kind = what.split(";")[0]
        lst = self.cov.setdefault("harness_problems", [])
        if len(lst) < 20:
            lst.append({"what": what, "detail": detail})
        if any(k in kind for k in ("timeout", "hang", "memory")):
            self.cov["skipped_budget"] = self.cov.get("skipped_budget", 0) + 1
        else:
            self.broken = "harness problem: %s %s" % (what, str(detail)[:300])

    # -- violations
    def violation(self, signature, witness):
        if signature.startswith("harness-"):
            self.harness_problem(signature[len("harness-"):], witness)
            return False
        """Register a violation with a coarse `signature` (call site / shape) and a replayable `witness` dict.
        Returns True if it is new (not a listed known finding)."""
        for key, what in self.known:
            if fnmatch.fnmatchcase(signature, key):
                if key not in self.known_hit:
                    print("KNOWN-FINDING: property=%s %s [key=%s]" % (self.prop, what, key))
                    sys.stdout.flush()
                self.known_hit[key] = self.known_hit.get(key, 0) + 1
                return False
        n = self._seen_sig.get(signature, 0)
        self._seen_sig[signature] = n + 1
        if n < self.max_replays_per_sig:
            path = self.write_replay(signature, witness)
            print("VIOLATION property=%s replay=%s" % (self.prop, path))
            print("  signature: %s" % signature)
            sys.stdout.flush()
            self.violations.append((signature, path))
        else:
            self.violations.append((signature, None))
        return True

    def write_replay(self, signature, witness):
        d = os.path.join(REPLAY_DIR, self.prop)
        os.makedirs(d, exist_ok=True)
        body = dict(witness)
        body["property"] = self.prop
        body["signature"] = signature
        blob = json.dumps(body, sort_keys=True, default=str)
        name = hashlib.sha1(blob.encode()).hexdigest()[:16] + ".json"
        path = os.path.join(d, name)
        with open(path, "w") as f:
            json.dump(body, f, indent=1, sort_keys=True, default=str)
        return path

    # -- finish
    def finish(self, guards=None):
        """Write evidence; exit code 0/1; raise Broken if a vacuity guard is zero."""
        os.makedirs(EVIDENCE_DIR, exist_ok=True)
        cov = dict(self.cov)
        cov["known_findings_matched"] = dict(self.known_hit)
        cov["violation_signatures"] = dict(self._seen_sig)
        ev = {
            "property_id": self.prop, "tier": self.tier, "seed": self.seed, "level": self.level,
            "coverage": cov, "assumptions": self.assumptions, "wall_s": round(time.time() - self.t0, 2),
            "violations": len(self.violations),
        }
        path = os.path.join(EVIDENCE_DIR, self.prop + ".json")
        with open(path, "w") as f:
            json.dump(ev, f, indent=1, default=str)
        summary = {k: v for k, v in cov.items() if isinstance(v, (int, float, bool))}
        print("%s %s: %s wall=%.1fs" % (self.prop, self.tier, json.dumps(summary), ev["wall_s"]))
        if self.broken:
            raise Broken(self.broken)
        if guards:
            for name, val in guards.items():
                if not val:
                    raise Broken("vacuity guard '%s' is zero" % name)
        return 1 if self.violations else 0
