"""C11 -- log replay reproduces the optimized code and rejects tampered logs.

For each input x option set: optimize with -log, replay with -optimize-from-log: the output must be byte-identical.
Then EVERY single tampering of the log from a menu (delete / duplicate / transpose / substitute / insert an id at
every position, delete an entry, retarget an entry, add an entry) -- and all pairs of edits on small logs in the
thorough tier -- is replayed: the run must fail, or every block it emits must be equivalent to the input block on
the reference EVM.
"""
import copy
import glob
import itertools
import json
import os

from . import blocks as B
from . import docrun, docs, evm_ref as E, pool, report, repo


def inputs():
    b1 = [B.P(0), B.I("DUP2"), B.I("ADD"), B.P(0x40), B.I("MSTORE"), B.P(1), B.I("SLOAD"), B.I("DUP1"), B.I("SWAP1"),
          B.I("POP"), B.I("PUSH [tag]", "3"), B.I("JUMPI")]
    b2 = [B.I("DUP1"), B.I("POP"), B.I("SWAP1"), B.I("SUB"), B.I("CALLDATALOAD"), B.P(1), B.P(1), B.I("ADD"),
          B.I("SSTORE"), B.I("STOP")]
    b3 = [B.P(5), B.P(0), B.I("ADD"), B.I("DUP1"), B.I("SWAP1"), B.I("LOG1"), B.P(1), B.P(1), B.I("MUL"),
          B.I("DUP2"), B.I("MSTORE"), B.I("STOP")]
    b4 = [B.I("CALLVALUE"), B.I("DUP1"), B.I("ISZERO"), B.I("ISZERO"), B.I("ISZERO"), B.I("PUSH [tag]", "1"), B.I("JUMPI")]
    b5 = [B.P(2), B.P(1), B.I("SWAP1"), B.I("SUB"), B.P(0), B.I("SSTORE"), B.P(0), B.I("DUP1"), B.I("RETURN")]
    b6 = [B.I("DUP2"), B.I("DUP2"), B.I("MSTORE"), B.I("SWAP1"), B.I("POP"), B.I("MLOAD"), B.I("PUSHLIB", "__$lib$__"),
          B.I("AND"), B.I("SWAP1"), B.I("JUMP")]
    b7 = [B.P(7), B.I("DUP2"), B.I("MSTORE"), B.P(7), B.I("DUP2"), B.P(1), B.I("ADD"), B.I("MSTORE"), B.I("POP"),
          B.I("STOP")]
    yield "syn1", docs.make_doc({"a.sol:A": docs.make_contract([b4, b5], [b1, b2, b3])})
    yield "syn2", docs.make_doc({"a.sol:A": docs.make_contract([b5], [b6, b7, b2], more_run_blocks=([b3, b1],))})
    yield "syn3", docs.make_doc({"a.sol:A": docs.make_contract([b4], [b3, b1]),
                                "a.sol:B": docs.make_contract([b5], [b2, b7, b6])})
    # every kind of store / load / hash whose operands come from pushes the log names (a library prologue writes its
    # address byte with MSTORE8): an edited PUSH id changes what is stored
    b8 = [B.P(0x73), B.I("DUP2"), B.I("MSTORE8"), B.P(1), B.P(0), B.I("ADD"), B.I("SWAP1"), B.I("POP"), B.I("STOP")]
    b9 = [B.P(0x20), B.P(0), B.I("KECCAK256"), B.P(3), B.I("SWAP1"), B.I("SSTORE"), B.P(2), B.P(0), B.I("MSTORE8"),
          B.P(0), B.I("MLOAD"), B.I("SWAP1"), B.I("POP"), B.I("STOP")]
    b10 = [B.P(4), B.P(5), B.I("MSTORE8"), B.P(6), B.P(5), B.I("MSTORE"), B.P(5), B.I("MLOAD"), B.P(0), B.I("ADD"),
           B.I("STOP")]
    yield "syn4", docs.make_doc({"a.sol:A": docs.make_contract([b4], [b8, b9, b10])})


CFGS = [("-greedy",), ("-greedy", "-storage"), ("-greedy", "-push0"), ("-greedy", "-size"), ("-greedy", "-partition")]
MENU = ["DUP1", "DUP2", "DUP3", "SWAP1", "SWAP2", "SWAP3", "POP", "NOSUCHID_0", "ADD_9", "PUSH0_7", "PUSH_9", "DUP1_0",
        "SWAP1_1", "POP_0", "MSTORE_9", "PUSH0", "PUSH", "NOP"]


def single_edits(log):
    """All single tamperings of a log (dict: sub-block -> id list): (label, new log)."""
    keys = list(log)
    all_ids = sorted({i for v in log.values() for i in v})
    for k in keys:
        seq = log[k]
        n = len(seq)
        own = sorted(set(seq))
        foreign = [i for i in all_ids if i not in own][:3]
        menu = own + MENU + foreign
        for p in range(n):
            yield "delete@%d" % p, _with(log, k, seq[:p] + seq[p + 1:])
            yield "duplicate@%d" % p, _with(log, k, seq[:p + 1] + seq[p:])
            if p + 1 < n and seq[p] != seq[p + 1]:
                yield "transpose@%d" % p, _with(log, k, seq[:p] + [seq[p + 1], seq[p]] + seq[p + 2:])
            for m in menu:
                if m != seq[p]:
                    yield "substitute@%d:%s" % (p, _cls(m, own)), _with(log, k, seq[:p] + [m] + seq[p + 1:])
        for p in range(n + 1):
            for m in menu:
                yield "insert@%d:%s" % (p, _cls(m, own)), _with(log, k, seq[:p] + [m] + seq[p:])
        d = dict(log)
        del d[k]
        yield "drop-entry", d
        yield "empty-entry", _with(log, k, [])
        for k2 in keys:
            if k2 != k:
                d = dict(log)
                d[k2] = list(seq)
                yield "retarget-entry", d
    # an entry for a sub-block that was not optimized
    for k in keys:
        base = k.rsplit("_", 1)[0]
        for idx in range(0, 4):
            cand = "%s_%d" % (base, idx)
            if cand not in log:
                yield "add-entry", _with(log, cand, list(log[k]))
        cand = k.replace("block_", "block_9")
        if cand not in log:
            yield "add-entry-unknown-block", _with(log, cand, list(log[k]))


def _cls(m, own):
    return "own" if m in own else "stack" if m.startswith(("DUP", "SWAP", "POP")) else "foreign"


def _with(log, k, seq):
    d = dict(log)
    d[k] = list(seq)
    return d


def setup(cfg):
    repo.load()
    return {"cfg": cfg, "base": {}}


def baseline(state, name, doc):
    if name in state["base"]:
        return state["base"][name]
    cfg = state["cfg"]
    r = docrun.run_document(cfg, doc, name=name, extra_args=("-log",))
    state["base"][name] = r
    return r


def replay_log(state, name, doc, log):
    cfg = state["cfg"]
    lp = "%s_tampered.log" % name
    with open(lp, "w") as f:
        json.dump(log, f)
    return docrun.run_document(cfg, doc, name=name, extra_args=("-optimize-from-log", lp))


def blocks_of(doc):
    out = []
    for path, items in docs.code_streams(doc):
        for bi, blk in enumerate(docs.split_items(items)):
            out.append(docs.block_of_items(blk))
    return out


def equivalent_docs(doc_in, doc_out):
    """None if every block of doc_out is equivalent to the corresponding block of doc_in on the reference EVM."""
    if docs.strip_code(doc_in) != docs.strip_code(doc_out):
        return {"kind": "metadata"}
    a, b = blocks_of(doc_in), blocks_of(doc_out)
    if len(a) != len(b):
        return {"kind": "block-count", "in": len(a), "out": len(b)}
    for k, (x, y) in enumerate(zip(a, b)):
        if x == y:
            continue
        try:
            nx, _ = E.need_delta(x)
            ny, _ = E.need_delta(y)
        except E.BadInstr as e:
            return {"kind": "bad-instruction", "block": k, "detail": str(e)}
        if ny > nx:
            return {"kind": "needs-deeper-stack", "block": k, "in": B.to_text(x), "out": B.to_text(y)}
        only_oog = None
        for st in B.states_for(x):
            d = E.compare(x, y, st)
            if d == "oog":
                continue
            if d is not None:
                d["state"] = st.key()
                if d.get("kind") == "oog-introduced":
                    # the new block touches memory beyond what can be paid for in this state; keep looking for a
                    # difference in values, and report this weaker one only if there is no other
                    only_oog = only_oog or {"kind": "distinguishable-only-by-memory-expansion", "block": k,
                                            "in": B.to_text(x), "out": B.to_text(y), "diff": d}
                    continue
                return {"kind": "distinguishable", "block": k, "in": B.to_text(x), "out": B.to_text(y), "diff": d}
        if only_oog:
            return only_oog
    return None


def work(state, unit):
    kind = unit[0]
    if kind == "baseline":
        # the optimization run; the replay happens in ANOTHER fresh process, as it does for a user of the tool
        _, name, doc = unit
        base = baseline(state, name, doc)
        if base["exc"] or base["out"] is None or not isinstance(base["log"], dict):
            return {"viol": {"clause": "baseline-failed", "detail": str(base["exc"])}}
        return {"viol": None, "log": base["log"], "out_text": base["out_bytes"].decode("utf-8", "replace")}
    if kind == "replay-identity":
        _, name, doc, log, out_text = unit
        r = replay_log(state, name, doc, log)
        if r["exc"] or r["out"] is None:
            return {"viol": {"clause": "replay-of-own-log-failed", "detail": str(r["exc"]), "log": log}}
        if r["out_bytes"].decode("utf-8", "replace") != out_text:
            from .c15 import first_diff
            return {"viol": {"clause": "replay-not-identical", "detail": first_diff(json.loads(out_text), r["out"]),
                             "log": log}}
        return {"viol": None, "log_entries": len(log), "log_ids": sum(len(v) for v in log.values())}
    _, name, doc, label, log = unit
    r = replay_log(state, name, doc, log)
    if r["exc"] is not None or r["out"] is None:
        return {"viol": None, "outcome": "rejected"}
    bad = equivalent_docs(doc, r["out"])
    if bad is None:
        return {"viol": None, "outcome": "accepted-equivalent"}
    return {"viol": {"clause": "tampered-log-accepted", "label": label, "log": log, "why": bad}, "outcome": "accepted-wrong"}


def scan_rejected(ctx, block):
    """Is the optimizer's candidate for this block rejected by the tool's own comparison?"""
    from . import driver
    r = driver.run_block(ctx, block)
    return bool(r.get("candidate_changed") and r.get("eq") is False and not r.get("raised"))


def rejected_input(cfgs):
    """A contract whose run code contains blocks the comparison rejects under every given option set (their
    solutions must not leak into the log), found by scanning a prefix tree with the real pipeline."""
    from . import driver
    cands = [[B.I("DUP1"), B.I("NOT"), B.I("NOT"), B.I("SWAP1"), B.I("POP")]] + list(B.tree(B.CORE, 3))[::3]
    hits = {}

    def on_s(cfg, blk, status, value):
        if status == "ok" and value:
            hits.setdefault(tuple(blk), set()).add(cfg)

    pool.run_tasks([(cfg, ch) for cfg in cfgs for ch in pool.chunks(cands, 200)], scan_rejected,
                   setup=driver.setup_ctx, unit_timeout=30, on_result=on_s)
    common = [list(b) for b, cs in hits.items() if len(cs) == len(cfgs)]
    common.sort(key=lambda b: (len(b), B.to_text(b)))
    picked = common[:4]
    if not picked:
        return None, 0
    ok1 = [B.P(5), B.P(0), B.I("ADD"), B.I("DUP1"), B.I("SWAP1"), B.I("POP")]
    run = []
    for b in picked:
        run.append([i for i in b if i[0] not in E.TERMINAL] + [B.I("STOP")])
        run.append(ok1 + [B.I("STOP")])
    return docs.make_doc({"r.sol:R": docs.make_contract([picked[0] + [B.I("STOP")]], run)}), len(picked)


def main(tier, seed, only=None):
    chk = report.Check("C11", "fault_enumeration", tier, seed)
    chk.cov["rule"] = ("inputs (3 synthesized multi-block contracts with stores, splits, pseudo pushes) x 3 (quick) / 5 (thorough) option sets incl. PUSH0 disabled; "
                       "replay of the genuine log must be byte-identical; every single edit of the log from the menu "
                       "(and every pair of edits on the smallest log in the thorough tier) is replayed and must be "
                       "rejected or yield blocks equivalent to the input on the reference EVM; non-trivial = tampered "
                       "logs that were replayed")
    ins = list(inputs())
    tot = {"identity": 0, "tampered": 0, "rejected": 0, "accepted_eq": 0, "budget": 0, "entries": 0}
    cfgs = CFGS[:3] if tier == "quick" else CFGS
    rdoc, nrej = rejected_input(cfgs)
    chk.cov["blocks_rejected_by_comparison_in_input_rej"] = nrej
    if rdoc is not None:
        ins.append(("rej", rdoc))
    # phase 1: baselines + identity (collect logs in the parent)
    logs = {}

    def on1(cfg, unit, status, value):
        chk.add("evaluations")
        if status != "ok":
            tot["budget"] += 1
            chk.violation("harness-%s" % status, {"detail": str(value)[-300:], "config": list(cfg)})
            return
        if value["viol"]:
            v = value["viol"]
            v.update({"input": unit[1], "config": list(cfg), "doc": unit[2]})
            chk.violation(v["clause"], v)
        else:
            tot["identity"] += 1
            tot["entries"] += value["log_entries"]

    outs = {}

    def on0(cfg, unit, status, value):
        chk.add("evaluations")
        if status != "ok":
            tot["budget"] += 1
            chk.violation("harness-%s" % status, {"detail": str(value)[-300:], "config": list(cfg)})
            return
        if value["viol"]:
            v = value["viol"]
            v.update({"input": unit[1], "config": list(cfg), "doc": unit[2]})
            chk.violation(v["clause"], v)
            return
        logs[(cfg, unit[1])] = value["log"]
        outs[(cfg, unit[1])] = value["out_text"]

    pool.run_tasks([(cfg, [("baseline", n, d)]) for cfg in cfgs for n, d in ins], work, setup=setup, unit_timeout=300,
                   on_result=on0)
    docmap0 = dict(ins)
    tasks = [(cfg, [("replay-identity", n, docmap0[n], logs[(cfg, n)], outs[(cfg, n)])]) for (cfg, n) in sorted(logs)]
    pool.run_tasks(tasks, work, setup=setup, unit_timeout=300, on_result=on1)

    def on2(cfg, unit, status, value):
        chk.add("evaluations")
        if status != "ok":
            tot["budget"] += 1
            chk.violation("harness-%s" % status, {"detail": str(value)[-300:], "config": list(cfg), "label": unit[3]})
            return
        tot["tampered"] += 1
        if value["outcome"] == "rejected":
            tot["rejected"] += 1
        elif value["outcome"] == "accepted-equivalent":
            tot["accepted_eq"] += 1
        if value["viol"]:
            v = value["viol"]
            v.update({"input": unit[1], "config": list(cfg), "doc": unit[2]})
            lab = v["label"].split("@")[0] + (":" + v["label"].split(":")[1] if ":" in v["label"] else "")
            chk.violation("%s;%s;%s" % (v["clause"], lab, v["why"]["kind"]), v)

    tasks = []
    docmap = dict(ins)
    n_edits = 0
    for (cfg, name), log in sorted(logs.items()):
        units = []
        seen = set()
        for label, l2 in single_edits(log):
            key = json.dumps(l2, sort_keys=True)
            if key in seen or l2 == log:
                continue
            seen.add(key)
            units.append(("tamper", name, docmap[name], label, l2))
        if tier != "quick" and name == "syn2":
            # all pairs of edits on one log
            singles = [u for u in units]
            for (u1, u2) in itertools.combinations(singles[::7], 2):
                l3 = dict(u1[4])
                for k, v in u2[4].items():
                    if v != log.get(k):
                        l3[k] = v
                key = json.dumps(l3, sort_keys=True)
                if key not in seen:
                    seen.add(key)
                    units.append(("tamper", name, docmap[name], u1[3] + "+" + u2[3], l3))
        n_edits += len(units)
        for ch in pool.chunks(units, max(20, len(units) // 8 + 1)):
            tasks.append((cfg, ch))
    pool.run_tasks(tasks, work, setup=setup, unit_timeout=300, on_result=on2)
    chk.sample({"logs": {"%s|%s" % (" ".join(c), n): l for (c, n), l in list(logs.items())[:2]}})
    chk.cov.update({"inputs": len(ins), "configs": [list(c) for c in cfgs], "identity_replays": tot["identity"],
                    "log_entries": tot["entries"], "tampered_logs_replayed": tot["tampered"],
                    "rejected": tot["rejected"], "accepted_but_equivalent": tot["accepted_eq"],
                    "skipped_budget": tot["budget"], "distinct_nontrivial": tot["tampered"]})
    return chk.finish(guards={"identity": tot["identity"], "tampered": tot["tampered"], "rejected": tot["rejected"]})


def replay(path):
    w = json.load(open(path))
    res = {}

    def on_r(cfg, unit, status, value):
        res["status"], res["value"] = status, value

    if w.get("clause") == "tampered-log-accepted":
        unit = ("tamper", w["input"], w["doc"], w["label"], w["log"])
        pool.run_tasks([(tuple(w["config"]), [unit])], work, setup=setup, unit_timeout=300, on_result=on_r)
    else:
        pool.run_tasks([(tuple(w["config"]), [("baseline", w["input"], w["doc"])])], work, setup=setup,
                       unit_timeout=300, on_result=on_r)
        b = res.get("value") or {}
        if res.get("status") == "ok" and not b.get("viol"):
            unit = ("replay-identity", w["input"], w["doc"], b["log"], b["out_text"])
            pool.run_tasks([(tuple(w["config"]), [unit])], work, setup=setup, unit_timeout=300, on_result=on_r)
    v = res.get("value")
    print("replay:", res.get("status"), str(v)[:300])
    if res.get("status") != "ok" or v.get("viol"):
        print("VIOLATION property=C11 replay=%s" % path)
        return 1
    print("no violation on replay")
    return 0
