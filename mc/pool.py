"""Supervised fork pool.

A *task* is (setup_arg, [unit, ...]).  For each task a child is forked from the pristine parent; it calls
`setup(setup_arg)` once, then `work(unit)` for each unit under a wall-clock alarm and an address-space limit, and
streams one message per unit.  A watchdog in the parent kills a child whose current unit exceeds the wall fallback of the alarm (a
hang inside C code that SIGALRM cannot interrupt), records that unit as ('hang', None) and re-forks for the rest.
One child serves exactly one setup_arg (the tool keeps sticky option state, DESIGN.md section 1).
"""
import multiprocessing as mp
import os
import resource
import time
import traceback

from . import repo

NPROC = int(os.environ.get("VERIF_JOBS", "0")) or min(16, os.cpu_count() or 4)
CTX = mp.get_context("fork")


def _child(conn, setup, work, setup_arg, units, unit_timeout, mem_bytes):
    try:
        if mem_bytes:
            resource.setrlimit(resource.RLIMIT_AS, (mem_bytes, mem_bytes))
        repo.enter_scratch("p%d" % os.getpid())
        state = setup(setup_arg) if setup else None
        for idx, unit in units:
            conn.send(("s", idx))
            t0 = time.process_time()
            try:
                with repo.cpu_alarm(unit_timeout):
                    res = ("ok", work(state, unit))
            except repo.UnitTimeout:
                res = ("timeout", time.process_time() - t0)
            except MemoryError:
                res = ("memory", None)
            except BaseException as e:  # harness bug or escaped tool exception: reported, never swallowed
                res = ("exc", "%s: %s\n%s" % (type(e).__name__, e, traceback.format_exc()[-2000:]))
            conn.send(("r", idx, res))
        if os.environ.get("VERIF_POOL_STATS"):
            ru = resource.getrusage(resource.RUSAGE_SELF)
            import sys
            sys.__stderr__.write("child %s units=%d u=%.2f s=%.2f minflt=%d maxrss=%dMB\n" % (
                setup_arg, len(units), ru.ru_utime, ru.ru_stime, ru.ru_minflt, ru.ru_maxrss // 1024))
        conn.send(("d",))
    except BaseException as e:
        try:
            conn.send(("fatal", "%s: %s\n%s" % (type(e).__name__, e, traceback.format_exc()[-2000:])))
        except Exception:
            pass
    finally:
        try:
            from . import cov
            cov.dump()
            repo.leave_scratch()
        finally:
            conn.close()
            os._exit(0)


class _Job:
    __slots__ = ("proc", "conn", "setup_arg", "units", "pos", "started", "done_idx")


def run_tasks(tasks, work, setup=None, unit_timeout=10.0, mem_gb=4, nproc=None, on_result=None, progress=None,
              stop=None):
    """tasks: iterable of (setup_arg, list_of_units).  Calls on_result(setup_arg, unit, status, value) in the parent
    for every unit (status in ok/timeout/memory/exc/hang).  Returns number of units processed."""
    nproc = nproc or NPROC
    repo.load()  # import the tool once, in the parent; children are forked from it
    mem_bytes = int(mem_gb * (1 << 30)) if mem_gb else 0
    pending = []
    for setup_arg, units in tasks:
        units = list(units)
        if units:
            pending.append((setup_arg, list(enumerate(units))))
    pending.reverse()
    active = []
    n_done = 0
    t_last = time.time()

    def spawn(setup_arg, iunits):
        parent, child = CTX.Pipe(duplex=False)
        p = CTX.Process(target=_child, args=(child, setup, work, setup_arg, iunits, unit_timeout, mem_bytes))
        p.daemon = True
        p.start()
        child.close()
        j = _Job()
        j.proc, j.conn, j.setup_arg, j.units = p, parent, setup_arg, iunits
        j.pos, j.started, j.done_idx = None, time.time(), set()
        active.append(j)

    def finish(j):
        try:
            j.conn.close()
        except Exception:
            pass
        j.proc.join(timeout=5)
        if j.proc.is_alive():
            j.proc.kill()
            j.proc.join()
        active.remove(j)

    while pending or active:
        if stop is not None and stop():
            # the caller has seen enough (e.g. dozens of units over budget): the verdict cannot change any more
            for j in list(active):
                j.proc.kill()
                finish(j)
            del pending[:]
            break
        while pending and len(active) < nproc:
            spawn(*pending.pop())
        ready = mp.connection.wait([j.conn for j in active], timeout=0.5)
        now = time.time()
        for j in list(active):
            if j.conn in ready:
                try:
                    while j.conn.poll():
                        msg = j.conn.recv()
                        if msg[0] == "s":
                            j.pos, j.started = msg[1], time.time()
                        elif msg[0] == "r":
                            _, idx, (status, value) = msg
                            j.done_idx.add(idx)
                            j.pos = None
                            n_done += 1
                            if on_result:
                                on_result(j.setup_arg, j.units[_find(j.units, idx)][1], status, value)
                        elif msg[0] == "d":
                            finish(j)
                            break
                        elif msg[0] == "fatal":
                            raise RuntimeError("worker failed in setup: " + msg[1])
                except EOFError:
                    # child died (e.g. killed by the kernel OOM killer or a segfault): blame the current unit
                    _blame(j, "hang", on_result)
                    n_done += 1
                    rest = [(i, u) for i, u in j.units if i not in j.done_idx]
                    finish(j)
                    if rest:
                        pending.append((j.setup_arg, rest))
            elif j.pos is not None and now - j.started > (repo.WALL_FACTOR + 2) * unit_timeout + 10:
                j.proc.kill()
                _blame(j, "hang", on_result)
                n_done += 1
                rest = [(i, u) for i, u in j.units if i not in j.done_idx]
                finish(j)
                if rest:
                    pending.append((j.setup_arg, rest))
        if progress and now - t_last > 10:
            t_last = now
            progress(n_done)
    return n_done


def _find(iunits, idx):
    # iunits is sorted by idx; usually idx == position offset
    lo = 0
    hi = len(iunits) - 1
    while lo <= hi:
        mid = (lo + hi) // 2
        if iunits[mid][0] == idx:
            return mid
        if iunits[mid][0] < idx:
            lo = mid + 1
        else:
            hi = mid - 1
    raise KeyError(idx)


def _blame(j, status, on_result):
    if j.pos is None:
        # died between units: blame the first unfinished one
        rest = [i for i, _ in j.units if i not in j.done_idx]
        if not rest:
            return
        j.pos = rest[0]
    j.done_idx.add(j.pos)
    if on_result:
        on_result(j.setup_arg, j.units[_find(j.units, j.pos)][1], status, None)


def chunks(seq, n):
    buf = []
    for x in seq:
        buf.append(x)
        if len(buf) >= n:
            yield buf
            buf = []
    if buf:
        yield buf
