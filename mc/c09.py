"""C09 -- non-optimizable code and metadata are preserved; emitted items are well formed.

Documents (shipped examples + documents spliced from enumerated blocks + the C15 grammar) x option sets go through
the real command-line entry; the emitted document is read with an independent reader and compared with the input:
everything outside .code identical, same blocks, every tag/JUMPDEST/jump/terminal/splitting instruction present in
the same order with all fields, every emitted item well formed, and the tool's parser re-reads its own output to
the same object.
"""
import copy
import glob
import json
import os

from . import blocks as B
from . import asm_ref, c15, configs, docrun, docs, evm_ref as E, pool, report, repo

BEGIN = {"tag", "JUMPDEST"}
END = {"JUMP", "JUMPI", "STOP", "RETURN", "REVERT", "INVALID", "SELFDESTRUCT"}
SPLIT = {"LOG0", "LOG1", "LOG2", "LOG3", "LOG4", "CALLDATACOPY", "CODECOPY", "EXTCODECOPY", "RETURNDATACOPY", "CALL",
         "STATICCALL", "DELEGATECALL", "CREATE", "CREATE2", "ASSIGNIMMUTABLE", "GAS"}
STORES = {"SSTORE", "MSTORE", "MSTORE8"}


def nonopt_names(cfg):
    s = BEGIN | END | SPLIT
    if "-storage" in cfg:
        s = s | STORES
    return s


def skeleton(items, names):
    return [it for it in items if it["name"] in names]


def check_output(doc, out, cfg, push0):
    """Returns a violation dict or None, and stats."""
    stats = {"blocks": 0, "changed_blocks": 0, "items_checked": 0}
    if docs.strip_code(doc) != docs.strip_code(out):
        return {"clause": "metadata-differs", "detail": c15.first_diff(docs.strip_code(doc), docs.strip_code(out))}, stats
    sin = list(docs.code_streams(doc))
    sout = list(docs.code_streams(out))
    if [p for p, _ in sin] != [p for p, _ in sout]:
        return {"clause": "streams-differ"}, stats
    names = nonopt_names(cfg)
    for (path, a), (_p, b) in zip(sin, sout):
        depth = sum(1 for x in path if x == ".data")
        if depth >= 2:
            if a != b:
                return {"clause": "nested-assembly-changed", "path": list(path)}, stats
            continue
        if push0:
            a = _norm_push0(a)
            b = _norm_push0(b)
        ba, bb = docs.split_items(a), docs.split_items(b)
        if len(ba) != len(bb):
            return {"clause": "block-count-differs", "path": list(path), "in": len(ba), "out": len(bb)}, stats
        for k, (x, y) in enumerate(zip(ba, bb)):
            stats["blocks"] += 1
            if x == y:
                continue
            stats["changed_blocks"] += 1
            sx, sy = skeleton(x, names), skeleton(y, names)
            if sx != sy:
                return {"clause": "skeleton-differs", "path": list(path), "block": k,
                        "in": B.to_text(docs.block_of_items(x)), "out": B.to_text(docs.block_of_items(y)),
                        "detail": c15.first_diff(sx, sy)}, stats
            pseudo = {(it["name"], it.get("value")) for it in x if it["name"] in asm_ref.PSEUDO_WITH_VALUE}
            for it in y:
                if it["name"] in names:
                    continue  # non-optimizable items were compared with the input above
                stats["items_checked"] += 1
                w = asm_ref.wellformed(it, pseudo)
                if w:
                    return {"clause": "malformed-item", "path": list(path), "block": k, "item": it, "why": w,
                            "in": B.to_text(docs.block_of_items(x)), "out": B.to_text(docs.block_of_items(y))}, stats
    return None, stats


def _norm_push0(items):
    out = []
    for it in items:
        if it["name"] == "PUSH" and it.get("value") == "0":
            it = {k: v for k, v in it.items() if k != "value"}
            it["name"] = "PUSH0"
        out.append(it)
    return out


def reread(out_path, push0):
    """The tool's parser re-reads its own output to the same JSON value."""
    from sfs_generator.parser_asm import parse_asm
    import global_params.constants as constants
    constants._set_push0(push0)
    with repo.quiet():
        again = parse_asm(out_path).to_json()
    return again


def setup(cfg):
    repo.load()
    return {"cfg": cfg}


def work(state, unit):
    cfg = state["cfg"]
    kind, payload = unit
    push0 = "-push0" not in cfg
    if kind == "file":
        doc = json.load(open(payload))
        r = docrun.run_document(cfg, None, path=payload)
    else:
        doc = payload
        r = docrun.run_document(cfg, doc)
    if r["exc"] or r["out"] is None:
        return {"viol": {"clause": "run-failed", "detail": r["exc"] or "no output file"}, "stats": None}
    v, stats = check_output(doc, r["out"], cfg, push0)
    if v is None:
        try:
            again = reread(r["out_path"], push0)
            a, b = (docs_norm(r["out"]), docs_norm(again)) if push0 else (r["out"], again)
            d = c15.first_diff(a, b)
            if d:
                v = {"clause": "reread-differs", "detail": d}
        except (repo.UnitTimeout, MemoryError):
            raise
        except Exception as e:
            v = {"clause": "reread-raised", "detail": "%s: %s" % (type(e).__name__, str(e)[:200])}
    stats["kept_initial"] = r.get("kept_initial", 0)
    return {"viol": v, "stats": stats}


def docs_norm(doc):
    return c15.normalize_push0(doc)


def spliced_docs(blocks, per_doc=120):
    """Documents whose run code is made of the given blocks, `per_doc` at a time."""
    out = []
    for ch in pool.chunks(blocks, per_doc):
        init = [[B.P(0x80), B.P(0x40), B.I("MSTORE"), B.I("CALLVALUE"), B.I("DUP1"), B.I("ISZERO"),
                 B.I("PUSH [tag]", "1"), B.I("JUMPI")], [B.P(0), B.I("DUP1"), B.I("REVERT")]]
        # every third document has a second and a third code-bearing data section
        more = (ch[:7], ch[7:11]) if len(out) % 3 == 1 and len(ch) > 11 else ()
        out.append(docs.make_doc({"gen.sol:G": docs.make_contract(init, ch, more_run_blocks=more)}))
    return out


def collision_docs():
    """Pseudo pushes of different kinds whose operands denote the same number but are spelled differently (tags are
    decimal, sub-assembly references are 64 hex digits, data / immutable references are hashes): the kinds are
    separate name spaces."""
    import itertools
    long1 = "0" * 63 + "1"
    kinds = [("PUSH [tag]", "1"), ("PUSH [$]", long1), ("PUSH #[$]", long1), ("PUSH data", "01"),
             ("PUSHIMMUTABLE", "0001"), ("PUSH [tag]", "10"), ("PUSH data", "0A"), ("PUSH [$]", "0" * 62 + "10")]
    blocks = []
    for a, b in itertools.permutations(kinds, 2):
        if a[0] == b[0]:
            continue
        blocks.append([a, b, ("ADD", None), ("DUP1", None), ("POP", None), ("STOP", None)])
        blocks.append([a, ("PUSH", 0), ("ADD", None), b, ("SWAP1", None), ("POP", None), ("STOP", None)])
    return spliced_docs(blocks, 40)


def library_docs():
    """Several blocks of one contract that link against DIFFERENT libraries (the parser numbers library references per
    block, so the first one of every block has index 0), each block optimizable."""
    P, I = B.P, B.I
    libs = ["__$aaaa1111bbbb2222cccc3333dddd4444ee$__", "__$5555ffff6666aaaa7777bbbb8888cccc99$__",
            "__$0123456789abcdef0123456789abcdef01$__"]
    blocks = []
    for i, l in enumerate(libs):
        blocks.append([I("PUSHLIB", l), P(0), I("ADD"), I("DUP1"), I("POP"), I("STOP")])
        blocks.append([P(1), P(1), I("ADD"), I("PUSHLIB", l), I("PUSHLIB", libs[(i + 1) % 3]), I("SWAP1"), I("POP"),
                       I("SWAP1"), I("POP"), I("STOP")])
    return spliced_docs(blocks, 40) + spliced_docs(blocks[::-1], 40)


def decorated_docs(blocks, per_doc=120):
    """The optional per-item fields solc emits: `modifierDepth` (code inlined from a modifier) on items of every kind,
    tag and JUMPDEST included, and `jumpType` on JUMPs.  Every second block is closed by a JUMP (an internal call or
    return, the way solc ends most blocks); over the JUMPs all four combinations of the two fields occur, and every
    fourth run of five items carries no `modifierDepth`."""
    out = []
    for d in spliced_docs(blocks, per_doc):
        d = copy.deepcopy(d)
        for _p, items in docs.code_streams(d):
            k = 0
            i = 0
            while i < len(items):
                if items[i]["name"] == "tag" and i > 0 and items[i - 1]["name"] not in ("JUMP", "STOP", "REVERT", "RETURN", "INVALID"):
                    k += 1
                    if k % 2 == 0:
                        items.insert(i, {"begin": 3, "end": 4, "name": "JUMP", "source": 0})
                        i += 1
                i += 1
            n = 0
            for i, it in enumerate(items):
                if (i // 5) % 4 != 3:
                    it["modifierDepth"] = 1 + (i // 5) % 3
                if it["name"] == "JUMP":
                    if n % 3 != 2:
                        it["jumpType"] = ("[in]", "[out]")[n % 2]
                    if n % 4 == 1:
                        it.pop("modifierDepth", None)
                    elif n % 4 == 2:
                        it["modifierDepth"] = 2
                    n += 1
        out.append(d)
    return out


def unit_sets(tier):
    shipped = sorted(glob.glob(os.path.join(repo.REPO, "examples", "jsons-solc", "*.json_solc")), key=os.path.getsize)
    c1 = configs.configs(1)
    if tier == "quick":
        yield "shipped(4 smallest)", [("file", f) for f in shipped[:4]], c1[:1] + [c for c in c1 if "-storage" in c or "-size" in c]
        yield "spliced(MIXED,3)", [("doc", d) for d in spliced_docs(list(B.tree(B.MIXED, 3)))], c1
        yield "pseudo-collisions", [("doc", d) for d in collision_docs()], c1[:1]
        yield "libraries", [("doc", d) for d in library_docs()], c1[:1] + [c for c in c1 if "-size" in c]
        yield "decorated(MIXED,3)/3", [("doc", d) for d in decorated_docs(list(B.tree(B.MIXED, 3))[::3])], c1[:1] + [c for c in c1 if "-storage" in c]
        gd = list(c15.gen_docs())
        yield "grammar", [("doc", d) for d in gd[::3] + gd[-3:]], c1[:1] + [c for c in c1 if "-push0" in c]
    else:
        yield "shipped(all)", [("file", f) for f in shipped], c1[:1] + [c for c in c1 if "-storage" in c]
        yield "shipped(4 smallest)", [("file", f) for f in shipped[:4]], c1
        yield "spliced(MIXED,4)", [("doc", d) for d in spliced_docs(list(B.tree(B.MIXED, 4)), 400)], c1
        yield "spliced(CORE,3)", [("doc", d) for d in spliced_docs(list(B.tree(B.CORE, 3)), 400)], c1
        yield "grammar", [("doc", d) for d in c15.gen_docs()], c1
        yield "pseudo-collisions", [("doc", d) for d in collision_docs()], c1
        yield "libraries", [("doc", d) for d in library_docs()], c1
        yield "decorated(MIXED,3)", [("doc", d) for d in decorated_docs(list(B.tree(B.MIXED, 3)))], c1


def main(tier, seed, only=None):
    chk = report.Check("C09", "exploration", tier, seed)
    chk.cov["rule"] = ("documents = shipped examples + documents spliced from prefix-tree blocks (splits, terminals, "
                       "pseudo pushes, stores) + grammar documents, x option sets, through gasol_asm.execute_gasol; "
                       "oracle: independent reader (metadata equality, skeleton equality per block, item "
                       "well-formedness, re-read equality); non-trivial = blocks whose emitted items differ from the input")
    tot = {"docs": 0, "blocks": 0, "changed": 0, "items": 0, "budget": 0, "kept_initial": 0}
    sets = {}

    def on_result(cfg, unit, status, value):
        chk.add("evaluations")
        if status != "ok":
            tot["budget"] += 1
            chk.violation("harness-%s" % status, {"unit": str(unit)[:200], "config": list(cfg), "detail": str(value)[-400:]})
            return
        tot["docs"] += 1
        st = value["stats"]
        if st:
            tot["blocks"] += st["blocks"]
            tot["changed"] += st["changed_blocks"]
            tot["items"] += st["items_checked"]
            tot["kept_initial"] += st.get("kept_initial", 0)
        v = value["viol"]
        if v:
            v["config"] = list(cfg)
            if unit[0] == "file":
                v["file"] = unit[1]
            else:
                v["doc"] = unit[1]
            import re
            chk.violation("%s;%s" % (v["clause"], re.sub(r"[0-9]+", "N", str(v.get("why") or v.get("detail") or ""))[:70]), v)
        elif st and st["changed_blocks"] and tot["docs"] % 40 == 1:
            chk.sample({"unit": unit[1] if unit[0] == "file" else "generated document", "config": list(cfg),
                        "blocks": st["blocks"], "changed_blocks": st["changed_blocks"]})

    for name, units, cs in unit_sets(tier):
        if only and only not in name:
            continue
        sets[name] = {"documents": len(units), "configs": len(cs)}
        tasks = [(cfg, ch) for cfg in cs for ch in pool.chunks(units, max(1, len(units) // 16 + 1))]
        pool.run_tasks(tasks, work, setup=setup, unit_timeout=600, on_result=on_result)
    chk.cov.update({"sets": sets, "document_runs": tot["docs"], "blocks_compared": tot["blocks"],
                    "blocks_changed": tot["changed"], "emitted_items_checked": tot["items"],
                    "blocks_reverted_by_tool": tot["kept_initial"], "distinct_nontrivial": tot["changed"]})
    if not chk.cov["samples"]:
        chk.sample({"sets": sets})
    return chk.finish(guards={"blocks_changed": tot["changed"], "emitted_items_checked": tot["items"]})


def replay(path):
    w = json.load(open(path))
    res = {}

    def on_r(cfg, unit, status, value):
        res["status"], res["value"] = status, value

    unit = ("file", w["file"]) if "file" in w else ("doc", w["doc"])
    pool.run_tasks([(tuple(w["config"]), [unit])], work, setup=setup, unit_timeout=600, on_result=on_r)
    v = res.get("value")
    print("replay:", res.get("status"), str(v and v["viol"])[:400])
    if res.get("status") != "ok" or v["viol"]:
        print("VIOLATION property=C09 replay=%s" % path)
        return 1
    print("no violation on replay")
    return 0
