"""C07 -- the Max-SMT problem keeps an optimal program and prices it correctly.

For small instances x criteria x {grouped, direct} soft constraints x all 64 pruning/bounds option sets: ALL projected
models with their soft penalty are enumerated (E5) and decoded through the tool's reader; an explicit-state
uniform-cost search over the reference stack machine (E6) gives the true minimum cost within the bounds.
 (1) realizable within the bounds  =>  the hard constraints have a model;
 (2) a model of minimum soft penalty decodes to a sequence of minimum true cost;
 (3) soft(M) - cost(decode(M)) is the same for all models M;
 (4) the optimum is the same for all pruning/bounds option sets.
"""
import itertools
import json

from . import asm_ref, blocks as B, c06, driver, pool, report, repo, sm_search, smt_enum, sym_ref

NAME = "verif_block_0"
PRUNING = [("-order-bounds",), ("-order-conflicts",), ("-no-output-before-pop",), ("-memory-encoding", "l_vars"),
           ("-at-most",), ("-pushed-once",)]
BIG = (1 << 200) + 12345


def pruning_sets():
    out = []
    for r in range(len(PRUNING) + 1):
        for sub in itertools.combinations(PRUNING, r):
            out.append(tuple(x for s in sub for x in s))
    return out


ORDER_KEYS = set()  # long instances whose LATER memory operation is the cheap one to run first (few option sets)
REUSE_KEYS = set()  # blocks that need one more position than the quick bound (copy versus recompute)


def instances(tier):
    P, I = B.P, B.I
    alpha = [P(1), P(BIG), I("DUP1"), I("SWAP1"), I("POP"), I("ADD"), I("ISZERO"), I("MSTORE"), I("SLOAD")]
    blocks = list(B.tree(alpha, 3, max_need=2))
    blocks = blocks[::9] if tier == "quick" else blocks[::2]
    # every kind of store and load next to POP/SWAP (pruning constraints name instruction classes: a class that
    # forgets one member removes the optimum only for that member)
    alpha2 = [P(1), I("DUP1"), I("SWAP1"), I("POP"), I("MSTORE8"), I("SSTORE"), I("MLOAD"), I("MSTORE")]
    b2 = [b for b in B.tree(alpha2, 3, max_need=3) if any(o in ("MSTORE8", "SSTORE", "MLOAD") for o, _ in b)]
    blocks += b2[::3] if tier == "quick" else b2
    # values that are needed twice and can either be copied (DUP) or recomputed from zero-operand instructions: the
    # soft constraints must price the recomputation
    alpha3 = [I("CALLVALUE"), I("ADDRESS"), I("ISZERO"), I("DUP1"), I("SWAP1"), I("ADD"), P(1)]
    b3 = [b for b in B.tree(alpha3, 4, max_need=1)
          if sum(1 for o, _ in b if o in ("CALLVALUE", "ADDRESS")) >= 2 and len(b) == 4]
    reuse = b3[::8] if tier == "quick" else b3
    reuse += [[I("CALLVALUE"), I("ISZERO"), I("CALLVALUE"), I("ISZERO"), I("SWAP1")],
              [I("CALLVALUE"), I("ISZERO"), I("CALLVALUE"), I("ISZERO")],
              [I("ADDRESS"), I("BALANCE"), I("ADDRESS"), I("BALANCE"), I("ADD")],
              [I("CALLVALUE"), I("CALLVALUE"), I("ADD"), I("CALLVALUE")]]
    # three-operand instructions (their third operand sits two positions before its consumer at the earliest)
    alpha4 = [I("ADDMOD"), I("MULMOD"), I("ISZERO"), I("SWAP1"), I("SWAP2"), P(7), I("DUP1")]
    b4 = [b for b in B.tree(alpha4, 4, max_need=3) if sum(1 for o, _ in b if o in ("ADDMOD", "MULMOD")) == 1
          and b[-1][0] in ("ADDMOD", "MULMOD")]
    reuse += b4[::6] if tier == "quick" else b4
    reuse += [[I("ISZERO"), P(7), I("SWAP2"), I("ADDMOD")], [I("SWAP2"), I("ISZERO"), I("SWAP2"), I("MULMOD")]]
    REUSE_KEYS.clear()
    REUSE_KEYS.update(tuple(b) for b in reuse)
    # the operands of the later of two ordered operations are on top of the initial stack: a missing ordering
    # constraint shows as a cheaper model that is not a realization
    order = [[I("SWAP2"), I("MLOAD"), I("SWAP2"), I("MSTORE")],
             [I("SWAP2"), I("SLOAD"), I("SWAP2"), I("SSTORE")],
             [I("SWAP2"), I("SWAP1"), I("MSTORE"), I("MLOAD")],
             [I("SWAP2"), I("SWAP1"), I("SSTORE"), I("SLOAD")],
             [I("SWAP2"), I("SWAP1"), I("SWAP3"), I("SWAP1"), I("SSTORE"), I("SSTORE")],
             [I("SWAP2"), I("SWAP1"), I("SWAP3"), I("SWAP1"), I("MSTORE"), I("MSTORE")]]
    if tier != "quick":
        order += [[I("SWAP1"), I("DUP1"), I("MLOAD"), I("SWAP2"), I("SWAP1"), I("MSTORE8")],
                  [I("SWAP2"), I("SWAP1"), I("SWAP3"), I("SWAP1"), I("MSTORE8"), I("MSTORE")]]
    ORDER_KEYS.clear()
    ORDER_KEYS.update(tuple(b) for b in order)
    blocks += order
    blocks += reuse
    for st in ("MSTORE", "MSTORE8", "SSTORE"):
        blocks += [[I(st), I("POP")], [I(st), I("POP"), I("POP")], [I("SWAP1"), I("SWAP1"), I(st), I("POP")],
                   [I("POP"), I(st)], [I("SWAP2"), I("POP"), I(st)]]
    blocks += [[P(BIG), P(BIG), I("ADD")], [P(1), P(1), P(1)], [P(BIG), I("DUP1"), I("DUP1")], [P(0), P(0), I("ADD")],
               [I("DUP1"), I("DUP1"), I("MSTORE")], [P(1), I("SLOAD"), P(1), I("SLOAD"), I("ADD")],
               [I("DUP2"), I("DUP2"), I("MSTORE"), I("SWAP1"), I("POP"), I("MLOAD")]]
    return blocks


def weights(sfs, criterion, push0):
    """Independent per-instruction weights (not the tool's gas/size fields, except for access-priced opcodes)."""
    w = {}
    for ui in sfs["user_instrs"]:
        d = ui["disasm"]
        if criterion == "length":
            w[ui["id"]] = 1
        elif criterion == "size":
            it = {"name": "PUSH" if d == "PUSH0" else d}
            if d in ("PUSH", "PUSH0"):
                it["value"] = "%x" % int(ui["value"][0]) if d == "PUSH" else "0"
            w[ui["id"]] = asm_ref.item_bytes(it, push0)
        else:
            if d in ("PUSH", "PUSH0"):
                w[ui["id"]] = 2 if (d == "PUSH0" or (push0 and int(ui["value"][0]) == 0)) else 3
            elif d in ("SLOAD", "SSTORE", "BALANCE", "EXTCODESIZE", "EXTCODEHASH", "KECCAK256", "EXP"):
                w[ui["id"]] = ui["gas"]
            else:
                w[ui["id"]] = asm_ref.static_gas({"name": d}, push0)
    if criterion == "length":
        w.update({"DUP": 1, "SWAP": 1, "POP": 1})
    elif criterion == "size":
        w.update({"DUP": 1, "SWAP": 1, "POP": 1})
    else:
        w.update({"DUP": 3, "SWAP": 3, "POP": 2})
    return w


def cost_of(ids, w):
    c = 0
    for i in ids:
        if i == "NOP":
            continue
        if i in w:
            c += w[i]
        else:
            c += w["DUP" if i.startswith("DUP") else "SWAP" if i.startswith("SWAP") else "POP"]
    return c


def setup(_cfg):
    return driver.Ctx(())


def params_for(crit, direct, prune):
    argv = ["x.txt", "-bl"]
    if crit != "gas":
        argv.append("-" + crit)
    if direct:
        argv.append("-direct-inequalities")
    argv += list(prune)
    return repo.make_params(argv)


def work(ctx, unit):
    block, prune_sets, limits = unit
    out = {"instances": 0, "configs": 0, "projections": 0, "nodes": 0, "assignments": 0, "decoded": 0, "viols": [],
           "skipped": 0, "multi": 0}
    try:
        specs, _ = driver.specs_for(ctx, block, name=NAME)
    except (repo.UnitTimeout, MemoryError):
        raise
    except Exception:
        out["skipped"] += 1
        return out
    push0 = ctx.push0
    for key, sfs in specs.items():
        b0, bs = sfs["init_progr_len"], sfs["max_sk_sz"]
        if b0 > limits["b0"] or bs > limits["bs"] or b0 < 1 or bs < 1:
            out["skipped"] += 1
            continue
        out["instances"] += 1
        ref = {}
        for crit in ("gas", "size", "length"):
            w = weights(sfs, crit, push0)
            r = sm_search.search(sfs, b0, bs, w)
            ref[crit] = (r, w)
        optimum = {}
        for crit in ("gas", "size", "length"):
            r, w = ref[crit]
            for direct in (False, True):
                for prune in prune_sets:
                    params = params_for(crit, direct, prune)
                    save = ctx.params
                    ctx.params = params
                    try:
                        v, info = check_config(ctx, key, sfs, r, w, limits)
                    finally:
                        ctx.params = save
                    out["configs"] += 1
                    for k in ("projections", "nodes", "assignments", "decoded"):
                        out[k] += info.get(k, 0)
                    if info.get("projections", 0) > 1:
                        out["multi"] += 1
                    cfg_txt = " ".join((["-" + crit] if crit != "gas" else []) + (["-direct-inequalities"] if direct else []) + list(prune)) or "default"
                    if v is None and "best_cost" in info:
                        prev = optimum.get((crit, direct))
                        if prev is None:
                            optimum[(crit, direct)] = (info["best_cost"], cfg_txt)
                        elif prev[0] != info["best_cost"]:
                            v = {"clause": "optimum-depends-on-pruning", "criterion": crit, "a": prev, "b": [info["best_cost"], cfg_txt]}
                    if v is not None and len(out["viols"]) < 12:
                        v.update({"block": B.to_text(block), "spec_key": key, "encoder_config": cfg_txt, "criterion": crit,
                                  "b0": b0, "bs": bs})
                        out["viols"].append(v)
    return out


def check_config(ctx, key, sfs, ref, w, limits):
    info = {}
    try:
        bo, text = c06.encode(ctx, key, sfs)
    except (repo.UnitTimeout, MemoryError):
        raise
    except Exception as e:
        return None, {"encoding_failed": 1}
    prob = smt_enum.Problem(text)
    en = smt_enum.Enumerator(prob, node_cap=limits["nodes"])
    projs = en.projections()
    info.update({"projections": len(projs), "nodes": en.nodes, "assignments": en.assignments})
    if en.cap_hit:
        return None, info
    if ref["capped"]:
        return None, info
    if ref["found"] and not projs:
        return {"clause": "realizable-but-unsatisfiable", "witness": ref["ids"]}, info
    if not projs:
        return None, info
    rows = []
    wrong = []
    for proj, (A, soft) in projs.items():
        ids = c06.decode(bo, prob, A)
        info["decoded"] = info.get("decoded", 0) + 1
        why = sym_ref.realizes(sfs, ids)
        if why is not None:
            wrong.append((soft, ids, why))
            continue
        rows.append((soft, cost_of(ids, w), ids))
    if wrong:
        # models that are no realization are C06's subject; here they matter when one of them is the optimum
        wb = min(wrong, key=lambda r: r[0])
        if not rows or wb[0] < min(r[0] for r in rows):
            return {"clause": "optimum-is-not-a-realization", "model_optimum": {"soft": wb[0], "ids": wb[1],
                    "fails": str(wb[2])[:200]}, "true_optimum": {"cost": ref["cost"], "ids": ref["ids"]}}, info
        return None, info
    offs = {s - c for s, c, _i in rows}
    if len(offs) > 1:
        # is the discrepancy explained by the tool pricing every instruction at no more than 5 bytes?
        w5 = {k: min(v, 5) for k, v in w.items()}
        capped = {s - cost_of(i, w5) for s, _c, i in rows}
        clause = "size-weight-capped-at-5" if len(capped) == 1 else "soft-penalty-not-affine-in-cost"
        a = min(rows, key=lambda r: r[0] - r[1])
        b = max(rows, key=lambda r: r[0] - r[1])
        return {"clause": clause, "a": {"soft": a[0], "cost": a[1], "ids": a[2]},
                "b": {"soft": b[0], "cost": b[1], "ids": b[2]}}, info
    best = min(rows, key=lambda r: r[0])
    info["best_cost"] = best[1]
    if ref["found"] and best[1] != ref["cost"]:
        return {"clause": "optimum-lost", "model_optimum": {"soft": best[0], "cost": best[1], "ids": best[2]},
                "true_optimum": {"cost": ref["cost"], "ids": ref["ids"]}}, info
    return None, info


def signature(v):
    return "%s;%s;%s" % (v["clause"], v["criterion"], v["encoder_config"][:60])


def main(tier, seed, only=None):
    chk = report.Check("C07", "model_checking", tier, seed)
    quick = tier == "quick"
    limits = {"b0": 3 if quick else 4, "bs": 4, "nodes": 60000}
    prunes = pruning_sets()
    if quick:
        prunes = [p for p in prunes if len([x for x in p if x.startswith("-") and x != "l_vars"]) <= 2]
    blocks = instances(tier)
    if only == "order":
        blocks = [b for b in blocks if tuple(b) in ORDER_KEYS]
    blocks.sort(key=lambda b: tuple(b) not in ORDER_KEYS)  # the long instances start first
    chk.cov["rule"] = ("instances = specifications of a slice of tree over {PUSH 1, PUSH 2^200+, DUP1, SWAP1, POP, ADD, "
                       "ISZERO, MSTORE, SLOAD} (+7 hand blocks) with init_progr_len <= %d x 3 criteria x {grouped, "
                       "direct} soft constraints x %d pruning/bounds option sets; all projected models with their soft "
                       "penalty (E5) vs the true optimum from explicit-state uniform-cost search (E6) with independent "
                       "weights; non-trivial = (instance, option set) with more than one projected model"
                       % (limits["b0"], len(prunes)))
    tot = {"instances": 0, "configs": 0, "projections": 0, "nodes": 0, "assignments": 0, "decoded": 0, "multi": 0,
           "budget": 0}

    def on_r(_c, unit, st, value):
        chk.add("evaluations")
        if st != "ok":
            tot["budget"] += 1
            return
        for k in ("instances", "configs", "projections", "nodes", "assignments", "decoded", "multi"):
            tot[k] += value[k]
        for v in value["viols"]:
            chk.violation(signature(v), v)
        if not value["viols"] and value["multi"] and tot["multi"] % 2000 < 30 and len(chk.cov["samples"]) < 6:
            chk.sample({"block": B.to_text(unit[0]), "configs": value["configs"], "projected_models": value["projections"]})

    wide = dict(limits, b0=limits["b0"] + 1)
    few = [p for p in prunes if len(p) <= 1] if quick else prunes
    long_ = dict(limits, b0=7, bs=5, nodes=400000)
    one_dev = [p for p in prunes if len(p) <= 1]  # long instances: the same option sets in both tiers
    units = [(b, one_dev, long_) if tuple(b) in ORDER_KEYS else (b, few, wide) if tuple(b) in REUSE_KEYS
             else (b, prunes, limits) for b in blocks]
    tasks = [((), [u]) for u in units if tuple(u[0]) in ORDER_KEYS] + \
        [((), ch) for ch in pool.chunks([u for u in units if tuple(u[0]) not in ORDER_KEYS], 2)]
    pool.run_tasks(tasks, work, setup=setup, unit_timeout=900, on_result=on_r)
    chk.cov.update({"states": max(1, tot["nodes"]), "transitions": max(1, tot["assignments"]),
                    "traces_validated_against_impl": tot["decoded"], "instances": tot["instances"],
                    "instance_option_pairs": tot["configs"], "projected_models": tot["projections"],
                    "pairs_with_several_models": tot["multi"], "pruning_sets": len(prunes),
                    "skipped_budget": tot["budget"], "distinct_nontrivial": tot["multi"],
                    "explanation": "states/transitions of the model enumerator; every projected model is decoded by the "
                                   "implementation's reader; the reference optimum comes from an explicit-state search"})
    if not chk.cov["samples"]:
        chk.sample({"note": "see counts"})
    return chk.finish(guards={"projected_models": tot["projections"], "multi": tot["multi"]})


def replay(path):
    w = json.load(open(path))
    from .c01 import parse_text
    res = {}

    def on_r(cfg, unit, status, value):
        res["status"], res["value"] = status, value

    limits = {"b0": 5, "bs": 5, "nodes": 200000}
    pool.run_tasks([((), [(parse_text(w["block"]), pruning_sets(), limits)])], work, setup=setup, unit_timeout=1800,
                   on_result=on_r)
    v = res.get("value")
    print("replay:", res.get("status"), str(v and v.get("viols"))[:300])
    if res.get("status") == "ok" and v.get("viols"):
        print("VIOLATION property=C07 replay=%s" % path)
        return 1
    print("no violation on replay")
    return 0
