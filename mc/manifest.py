"""Generates /verif/MANIFEST.json from the table below: `python -m mc.manifest` (keeps the file valid and complete)."""
import json
import os

VERIF = os.path.dirname(os.path.dirname(os.path.abspath(__file__)))

CHECKS = {
    "C01": dict(
        level="exploration", engine="E1+E2", ref="DESIGN.md section 4 C01",
        text="every block of the stated prefix trees and families x deviation-bounded option sets is pushed through "
             "the real per-block pipeline (optimize, re-verify, keep-or-revert) and every emitted block that differs "
             "from its input is executed against it on every state of a boundary-value state domain on a reference EVM",
        note="trusted base: mc/evm_ref.py (self-tested against z3 bit-vectors and Keccak vectors); equivalence modulo "
             "gas metering; MSIZE/PC excluded; back-ends: greedy, Max-SMT and -ub-greedy with the stand-in solver "
             "(mc/standin.py, the model enumerator answering with a minimum-penalty model)",
        technique="bounded-exhaustive enumeration of programs x configurations x states against a reference interpreter"),
    "C02": dict(
        level="model_checking", engine="E1+E2+E4", ref="DESIGN.md section 4 C02",
        text="the schedule space of every specification is explored completely: all linearizations of its memory/"
             "storage operations compatible with the declared dependencies and data flow are evaluated (specification "
             "evaluator on the reference EVM) on an aliasing-forcing state domain and compared with the run of the block; "
             "families: pairs, sandwiches and triples of stores (overlap is not transitive) over constant and symbolic "
             "addresses, prefix trees, the opcode vocabulary",
        note="states = schedules, transitions = (schedule, machine state) evaluations; every schedule is executed on "
             "the specification emitted by the real front-end (no separate model to keep in sync); trusted base: "
             "mc/spec_eval.py + mc/evm_ref.py",
        technique="exhaustive enumeration of schedules (linearizations) x states against a reference interpreter"),
    "C03": dict(
        level="exploration", engine="E1+E2+E4", ref="DESIGN.md section 4 C03",
        text="every rule's left-hand side is instantiated with operands from {variable, same variable, other variable, "
             "12 boundary constants}, pairs/chains for context rules, under each criterion with rules on and off; the "
             "produced specification is evaluated on every state of the boundary domain and compared with the EVM run "
             "of the block; constants in specifications must be 256-bit words; an instruction flagged commutative is "
             "evaluated with both operand orders; size gating: under -size the fewest bytes of any sequence realizing the "
             "specification (explicit-state uniform-cost search over the reference stack machine, independent byte "
             "weights) with rules on must not exceed the figure with rules off, for every block of <= 7 instructions; "
             "evidence lists which rules fired",
        note="trusted base: mc/spec_eval.py + mc/evm_ref.py + mc/sm_search.py",
        technique="bounded-exhaustive instantiation of rewrite-rule left-hand sides x boundary operand values against "
                  "a reference interpreter"),
    "C04": dict(
        level="exploration", engine="E1+E3", ref="DESIGN.md section 4 C04",
        text="greedy_from_json is run on every specification produced by the front-end for the enumerated blocks "
             "(three split policies), on hand-enumerated and deep-stack specifications, on a crossfeed family (all words "
             "of length 3-4 over loads/stores with stack operands) and, for every front-end specification that declares "
             "an ordering or on which the greedy gave up, on every other arrangement of its initial stack; each sequence reported as "
             "success is executed on an independent symbolic stack machine that checks underflow, DUP/SWAP depth, "
             "operands, stores once, declared order and final stack",
        note="trusted base: mc/sym_ref.py (~100 lines); error=1 (greedy gave up) is not a violation",
        technique="bounded-exhaustive enumeration of specifications, each result replayed on a reference stack machine"),
    "C05": dict(
        level="exploration", engine="E1+E2", ref="DESIGN.md section 4 C05",
        text="for every enumerated block, ALL single-point semantic mutations are generated; each pair the reference "
             "EVM distinguishes on some state of the domain is submitted to compare_asm_block_asm_format, which must "
             "not answer equal; the same for single-point mutations of the sequence the tool itself proposes for the "
             "block (pairs near the candidate); compare(B,B) must answer equal without raising",
        note="trusted base: mc/evm_ref.py; the external-checker adapter is checked by comparing forves_format with an "
             "independent rendering for every block of a prefix tree with splitting instructions and pseudo pushes, and "
             "by running the real bin/forves-checker on a slice of distinguishable pairs",
        technique="bounded-exhaustive enumeration of block pairs (all single-point mutants) with a reference-"
                  "interpreter distinguishability oracle"),
    "C10": dict(
        level="fault_enumeration", engine="E1+E8", ref="DESIGN.md section 4 C10",
        text="(a) constant-operand, chain and deep-live families x option sets through optimize+compare under a CPU "
             "budget of 5 s (min of 3 attempts) and 1 GiB RSS growth, no escaping exception; (b) every (seam, n-th "
             "call, exception type and payload shape: message / no argument / message+code / non-string) of the per-block pipeline is injected into 3-block contracts driven through the "
             "real optimize_asm_in_asm_format: the run must finish, write its output, and differ from the fault-free "
             "output in at most one block, which must equal its input; (c) a block on which the analysis fails by "
             "itself (PC whose value is used) at each of 10 placements of a two-contract, three-section document: every "
             "other block must come out exactly as in the run with a harmless block in that place",
        note="seams are wrapped by module-attribute rebinding in the harness process; budgets are ~1000x the normal "
             "per-block cost; known finding: exponential specification generation on DUP-shared chains",
        technique="exhaustive single-fault enumeration (seam x call index x exception type) plus bounded-exhaustive "
                  "input families under resource budgets"),
    "C14": dict(
        level="exploration", engine="E1+E7", ref="DESIGN.md section 4 C14",
        text="for every block of a prefix tree over 13 symbols (all kinds of splitting, terminal and store "
             "instructions) and of filler blocks of length 18..27 with stores/splits at every subset of <=3 positions, "
             "plus blocks of length 40 (thorough: 49) with three or four stores whose distances cross the partition "
             "threshold in every combination, "
             "under the three policies: join of the reported sub-blocks = optimizable sequence, sub-blocks meet at an "
             "instruction that can be a splitting instruction, get_subblocks agrees, "
             "every specification key/recorded instruction list/stack sizes match its sub-block, rebuild with {} and "
             "all-None is the identity on all fields, and replacing sub-block k changes exactly segment k; plus every "
             "splitting instruction met at every stack height 0..17 (thorough ..39 and 98..102)",
        note="expected layouts are computed by an independent segmentation (mc/spec_eval.segments) and an independent "
             "rendering of the plain text form; known finding: ASSIGNIMMUTABLE operand missing in the sub-block list",
        technique="bounded-exhaustive enumeration of programs x split policies against an independent partition "
                  "model"),
    "C15": dict(
        level="exploration", engine="E7", ref="DESIGN.md section 4 C15",
        text="all shipped asm-JSON examples and grammar-generated documents (every item kind, optional fields, nested "
             ".data, contracts without asm, several contracts) x PUSH0 on/off are read and written back and compared "
             "as JSON values; every block of a prefix tree over stack/arith/pseudo-push symbols goes through both "
             "plain renderings and the plain parser; ten spellings of each of 21 constants must parse to the value",
        note="document comparison treats {PUSH,\"0\"} and {PUSH0} as the same item when PUSH0 is enabled (consistency "
             "of the spelling is C17's subject); library references compare by first-occurrence index in the plain form",
        technique="bounded-exhaustive enumeration of documents, blocks and spellings with a differential round-trip "
                  "oracle"),
    "C09": dict(
        level="exploration", engine="E7", ref="DESIGN.md section 4 C09",
        text="shipped examples, documents spliced from prefix-tree blocks (splits, terminals, pseudo pushes, stores) "
             "and grammar documents x option sets run through gasol_asm.execute_gasol; an independent reader checks "
             "metadata equality, per-block skeleton equality (every tag/JUMPDEST/jump/terminal/splitting instruction "
             "with all fields, including solc's optional modifierDepth / jumpType), well-formedness of every emitted "
             "item, and that the tool re-reads its output to the same value",
        note="trusted base: mc/docs.py + mc/asm_ref.py; hex case of PUSH constants is not constrained; streams the "
             "tool does not parse (assemblies nested two levels) must be byte-identical",
        technique="bounded-exhaustive enumeration of input documents x configurations with an independent "
                  "reader as oracle"),
    "C17": dict(
        level="exploration", engine="E1+E7", ref="DESIGN.md section 4 C17",
        text="(A) every block of a zero-producing family (pushed, folded, rule results, prefix tree containing PUSH 0) "
             "x PUSH0 on/off x three criteria through optimize+compare: no PUSH0 emitted while disabled, a single "
             "PUSH0 spelling while enabled, and the sizes/gas reported for input and output sub-blocks equal "
             "independent figures under the same spelling rule, on the JSON route and (PUSH0 disabled) on the -bl text "
             "route with the two-digit spelling of zero; (B) 2-3 contract documents x every -c selection "
             "against the single-contract run, statistics/log restricted to the selection, unknown name is an error",
        note="gas recomputation is restricted to sub-blocks without access-priced instructions; trusted base "
             "mc/asm_ref.py",
        technique="bounded-exhaustive enumeration of programs x configurations with independent accounting and a "
                  "differential (single-contract) oracle"),
    "C08": dict(
        level="exploration", engine="E1+E2+E7", ref="DESIGN.md section 4 C08",
        text="prefix trees and rule/memory families x {gas,size,length} x split modes through the per-block pipeline; "
             "every emitted block that differs from its input is priced independently (bytes by libevmasm's rule, "
             "instruction count, metered gas of a reference-EVM run on every state of the domain) and must be no "
             "costlier in the criterion and improve by the stated rule; contracts of 8 blocks: the six printed totals "
             "equal the sums of single-block runs and independent size/length figures",
        note="gas = Berlin/London/Shanghai schedule with cold/warm access sets, EIP-2200 SSTORE without refunds, memory "
             "expansion, per-byte/word surcharges; trusted base mc/evm_ref.py + mc/asm_ref.py",
        technique="bounded-exhaustive enumeration of programs x criteria x states with independent cost functions; "
                  "differential additivity oracle for totals"),
    "C18": dict(
        level="exploration", engine="E9b", ref="DESIGN.md section 4 C18",
        text="all well-sorted formula trees of depth <= 1 (arity <= 3, all atoms and literals), depth 2 over a core "
             "atom set and a slice (thorough: all) of depth 3 are built through the add_* constructors; under all 36 "
             "valuations the constructed object, the parsed translate_formula text and the unsimplified tree must "
             "agree; == between all pairs of depth <= 1 objects (and a slice of deeper pairs) must imply equal value",
        note="ill-sorted equalities (True = 1) are outside the domain; trusted base: the evaluator and S-expression "
             "reader in mc/c18.py",
        technique="bounded-exhaustive enumeration of formula trees x valuations against an independent evaluator"),
    "C11": dict(
        level="fault_enumeration", engine="E2+E7+E8", ref="DESIGN.md section 4 C11",
        text="for 3 synthesized multi-block contracts x option sets: the log written by an optimization run is replayed "
             "and the output must be byte-identical; then every single edit of the log from a menu (delete, duplicate, "
             "transpose, substitute and insert own/stack/foreign/unknown ids at every position, drop/empty/retarget/"
             "add entries), and pairs of edits in the thorough tier, is replayed through -optimize-from-log and must "
             "be rejected or produce blocks equivalent to the input on the reference EVM",
        note="the whole command-line entry is driven in-process per option set; trusted base mc/evm_ref.py",
        technique="exhaustive enumeration of single (and bounded double) tamperings of a history artefact, each "
                  "replayed on the implementation"),
    "C12": dict(
        level="model_checking", engine="E8+E1", ref="DESIGN.md section 4 C12",
        text="explicit-state search over processing histories: 14 probe blocks (one per group of module globals), a "
             "transition processes one probe (specification + optimize + compare) under a fixed option set, a state is "
             "the canonical snapshot of every module-level variable of the tool (hashed for deduplication); BFS to depth "
             "1 (quick) / 2 (thorough) with every history replayed in a freshly forked process, plus one de Bruijn walk "
             "per option set in which every word of length 2 (quick) / 3 (thorough) over the probes occurs as "
             "consecutive transitions; invariant on every transition: result == result in a fresh process; plus "
             "cross-history agreement over a victim pool, saturation histories (one block per opcode, round robin, "
             "13/41 rounds in one process) and "
             "position independence of a block inside a contract (every rotation of three blocks, STOP-closed and "
             "falling through into the next tag, and each block alone in a contract of its own: emitted code, "
             "statistics rows and log entries must agree)",
        note="result = specifications, sub-block list, emitted items, log entry, statistics without timings; "
             "global_params.paths (private scratch location) is excluded from the state; sound deduplication because "
             "the code is a deterministic function of its globals, arguments and (wiped) scratch files",
        technique="explicit-state BFS over operation histories with canonical state hashing, transitions executed on "
                  "the real implementation"),
    "C13": dict(
        level="model_checking", engine="E8", ref="DESIGN.md section 4 C13",
        text="every set iteration in 11 modules of the tool is routed through a scheduler (the name `set` is rebound to "
             "a controlled subclass in the harness process); for each input the default run records the iteration "
             "points, then every point is deviated (all permutations for small sets, reversal/rotation/adjacent "
             "transpositions above; pairs of points in the thorough tier) and the complete result must be unchanged; "
             "the default schedule is replayed and must reproduce itself (a different result of the second run in the "
             "same process is a violation, different iteration points with the same result break the check); the same inputs are also processed in fresh "
             "interpreters under different PYTHONHASHSEED / scratch / cwd and must give identical digests",
        note="set literals/comprehensions are only covered by the hash-seed runs (finitely many seeds, stated); machine "
             "load is an assumption",
        technique="exhaustive deviation-bounded exploration of iteration-order schedules on the real implementation"),
    "C16": dict(
        level="model_checking", engine="E3+E6", ref="DESIGN.md section 4 C16",
        text="for every specification the front-end produces on the enumerated blocks (several option sets) with "
             "init_progr_len <= 5 (quick) / 6 (thorough): explicit-state uniform-cost search over the reference stack "
             "machine bounded by the published length and stack bounds must find a realizing sequence (re-validated by "
             "the symbolic stack machine), and no realizing sequence of any height may be shorter than the published "
             "minimum lengths",
        note="state hashing is exact ((stack, executed set) have the same futures); known finding: init_progr_len too "
             "small when a rule discards a value; recorded original instructions are checked by C14",
        technique="explicit-state search (uniform-cost BFS with exact state hashing) over a reference transition "
                  "system, witnesses replayed on the specification emitted by the implementation"),
    "C06": dict(
        level="model_checking", engine="E3+E5", ref="DESIGN.md section 4 C06",
        text="for specifications of a prefix tree over a 10-symbol alphabet (plus blocks with every kind of dependency "
             "edge) with small bounds x encoder option sets (deviation bounded), the emitted .smt2 is checked statically "
             "(every symbol declared once, used at its arity and sorts, logic consistent) and ALL projections of its "
             "models onto the instruction variables are enumerated by a finite-domain search over the text; every "
             "projected model is decoded through BlockOptimizer's own reader (OMS syntax, and z3 syntax on a slice) and "
             "executed on the symbolic stack machine within the declared bounds; for four long instances (12-13 "
             "positions) a known realizing sequence is completed into a full model by the same search with the "
             "instruction variables fixed, printed in three definition orders x two solver syntaxes and decoded; -empty "
             "(no occupancy flags) is explored to length 2 on the tree and to length 3 on stores next to pushes, alone and "
             "with each term encoding",
        note="the enumerator (mc/smt_enum.py) explores the encoding as a transition system with unit propagation and "
             "branches on anything left undetermined; cross-validated against z3 on dumped instances by "
             "tools/z3_cross.py (28/28 agree); model and implementation are bound by construction: the enumerator "
             "reads the emitted text and every model goes back through the implementation's reader; known findings: "
             "-push-basic with uninterpreted sorts, max_sk_sz = 0 instances",
        technique="exhaustive enumeration of the (projected) model set of the emitted transition-system encoding, every "
                  "model replayed through the implementation"),
    "C07": dict(
        level="model_checking", engine="E3+E5+E6", ref="DESIGN.md section 4 C07",
        text="for small instances x {gas,size,length} x {grouped,direct} soft constraints x pruning/bounds option sets "
             "(22 in the quick tier, all 64 in the thorough tier): all projected models with their soft penalty are "
             "enumerated from the emitted text and decoded by the tool's reader; the true optimum within the bounds "
             "comes from an explicit-state uniform-cost search over the reference stack machine with independent "
             "weights; checked: realizable => satisfiable, a minimum-penalty model has minimum true cost, penalty minus "
             "cost is constant over models, the optimum does not depend on the pruning set; instances include every "
             "kind of store/load next to POP/SWAP, values that can be copied or recomputed, and pairs of ordered "
             "memory operations whose later member is the cheap one to run first (length <= 7: a cheaper model that is "
             "no realization is reported as optimum-is-not-a-realization)",
        note="weights: bytes by libevmasm's rule, Berlin static gas (the tool's figure for access-priced opcodes), "
             "instruction count; known finding: -size prices instructions at min(bytes,5)",
        technique="exhaustive enumeration of the model set of the emitted encoding against an explicit-state "
                  "shortest-path search of a reference transition system"),
}

NOT_YET = "check not built yet in this session (planned in DESIGN.md section 4); nothing is claimed for it"


def main():
    props = [json.loads(l)["id"] for l in open(os.path.join(VERIF, "properties.jsonl")) if l.strip()]
    checks = []
    na = []
    for p in props:
        c = CHECKS.get(p)
        if not c:
            na.append({"property_id": p, "reason": NOT_YET})
            continue
        checks.append({
            "property_id": p,
            "quick_cmd": "./check %s --tier quick" % p,
            "thorough_cmd": "./check %s --tier thorough" % p,
            "evidence_file": "evidence/%s.json" % p,
            "replay_cmd_template": "./check %s --replay {path}" % p,
            "engine": c["engine"],
            "level_claimed": {"category": c["level"], "text": c["text"], "design_ref": c["ref"]},
            "level_note": c["note"],
            "technique": c["technique"],
        })
    man = {
        "version": 1,
        "setup_cmd": "mkdir -p evidence && /venv/bin/python -m mc.selftest && python3-vt -m mc.selftest --z3",
        "hooks": {
            "guard": "GASOL_VERIF",
            "enable": "no source hooks: the harness imports /repo (or $GASOL_REPO) in-process and rebinds module "
                      "attributes (scratch paths, stand-in solver, controlled set iteration, fault points) inside "
                      "its own forked worker processes",
            "baseline_off_cmd": "cd /repo && /venv/bin/python -m pytest -ra -q -p no:cacheprovider --timeout=900 "
                                "--continue-on-collection-errors",
            "source_commits": [],
            "add_only": True,
        },
        "engines": [
            {"name": "E1 block explorer + supervised fork pool", "path": "mc/blocks.py mc/families.py mc/pool.py",
             "serves_properties": sorted(CHECKS), "kind_free_text": "bounded-exhaustive enumeration of blocks x option "
             "sets x states executed on the real pipeline in forked workers (one option set per process)"},
            {"name": "E2 reference EVM", "path": "mc/evm_ref.py mc/keccak.py", "serves_properties": sorted(CHECKS),
             "kind_free_text": "concrete straight-line EVM interpreter (oracle)"},
        ],
        "checks": checks,
        "not_applicable": na,
        "notes": "All checks: exit 0 = held on everything explored (KNOWN-FINDING lines allowed), exit 1 + VIOLATION "
                 "line = new violation, exit 2 = the check itself is broken. known_findings.txt lists recorded and "
                 "repaired defects.",
    }
    with open(os.path.join(VERIF, "MANIFEST.json"), "w") as f:
        json.dump(man, f, indent=1)
    print("MANIFEST.json: %d checks, %d not applicable" % (len(checks), len(na)))


if __name__ == "__main__":
    main()
