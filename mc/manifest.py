"""Generates /verif/MANIFEST.json from the table below: `python -m mc.manifest` (keeps the file valid and complete)."""
import json
import os

VERIF = os.path.dirname(os.path.dirname(os.path.abspath(__file__)))

CHECKS = {
    "C01": dict(
        level="exploration", engine="E1+E2", ref="DESIGN.md section 4 C01",
        text="every block of the stated prefix trees and families x deviation-bounded option sets is pushed through "
             "the real per-block pipeline (optimize, re-verify, keep-or-revert) and every emitted block that differs "
             "from its input is executed against it on every state of a boundary-value state domain on a reference EVM",
        note="trusted base: mc/evm_ref.py (self-tested against z3 bit-vectors and Keccak vectors); equivalence modulo "
             "gas metering; MSIZE/PC excluded; greedy back-end (Max-SMT path through the stand-in solver in C06/C07)",
        technique="bounded-exhaustive enumeration of programs x configurations x states against a reference interpreter"),
}

NOT_YET = "check not built yet in this session (planned in DESIGN.md section 4); nothing is claimed for it"


def main():
    props = [json.loads(l)["id"] for l in open(os.path.join(VERIF, "properties.jsonl")) if l.strip()]
    checks = []
    na = []
    for p in props:
        c = CHECKS.get(p)
        if not c:
            na.append({"property_id": p, "reason": NOT_YET})
            continue
        checks.append({
            "property_id": p,
            "quick_cmd": "./check %s --tier quick" % p,
            "thorough_cmd": "./check %s --tier thorough" % p,
            "evidence_file": "evidence/%s.json" % p,
            "replay_cmd_template": "./check %s --replay {path}" % p,
            "engine": c["engine"],
            "level_claimed": {"category": c["level"], "text": c["text"], "design_ref": c["ref"]},
            "level_note": c["note"],
            "technique": c["technique"],
        })
    man = {
        "version": 1,
        "setup_cmd": "mkdir -p evidence && /venv/bin/python -m mc.selftest && python3-vt -m mc.selftest --z3",
        "hooks": {
            "guard": "GASOL_VERIF",
            "enable": "no source hooks: the harness imports /repo (or $GASOL_REPO) in-process and rebinds module "
                      "attributes (scratch paths, stand-in solver, controlled set iteration, fault points) inside "
                      "its own forked worker processes",
            "baseline_off_cmd": "cd /repo && /venv/bin/python -m pytest -ra -q -p no:cacheprovider --timeout=900 "
                                "--continue-on-collection-errors",
            "source_commits": [],
            "add_only": True,
        },
        "engines": [
            {"name": "E1 block explorer + supervised fork pool", "path": "mc/blocks.py mc/families.py mc/pool.py",
             "serves_properties": sorted(CHECKS), "kind_free_text": "bounded-exhaustive enumeration of blocks x option "
             "sets x states executed on the real pipeline in forked workers (one option set per process)"},
            {"name": "E2 reference EVM", "path": "mc/evm_ref.py mc/keccak.py", "serves_properties": sorted(CHECKS),
             "kind_free_text": "concrete straight-line EVM interpreter (oracle)"},
        ],
        "checks": checks,
        "not_applicable": na,
        "notes": "All checks: exit 0 = held on everything explored (KNOWN-FINDING lines allowed), exit 1 + VIOLATION "
                 "line = new violation, exit 2 = the check itself is broken. known_findings.txt lists recorded and "
                 "repaired defects.",
    }
    with open(os.path.join(VERIF, "MANIFEST.json"), "w") as f:
        json.dump(man, f, indent=1)
    print("MANIFEST.json: %d checks, %d not applicable" % (len(checks), len(na)))


if __name__ == "__main__":
    main()
