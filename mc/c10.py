"""C10 -- every block is processed to completion; a failure costs at most that block.

(a) budget/exception freedom: constant-operand families, chains, deep-live blocks x option sets through the per-block
    pipeline (optimize + compare); CPU and memory budgets three orders of magnitude above the normal cost.
(b) fault enumeration: 3-block contracts through the real optimize_asm_in_asm_format; for every seam of the per-block
    pipeline and every n-th call, inject each exception type; the run must finish, write its output, and differ from
    the fault-free output in at most the block that was being processed, which must equal its input.
"""
import itertools
import json
import os
import resource
import time

from . import blocks as B
from . import configs, docs, driver, evm_ref as E, families, pool, report, repo

CPU_BUDGET_S = 5.0
RSS_BUDGET_KB = 1 << 20  # 1 GiB


# ------------------------------------------------------------------------------------------------------------ (a)

def const_family():
    ops2 = ["DIV", "SDIV", "MOD", "SMOD", "EXP", "SHL", "SHR", "SAR", "SIGNEXTEND", "BYTE", "ADD", "SUB", "MUL"]
    for op in ops2:
        for a, b in itertools.product(B.BOUNDARY, repeat=2):
            yield [B.P(b), B.P(a), B.I(op)]
            yield [B.P(b), B.P(a), B.I(op), B.I("ISZERO")]
    six = [0, 1, 2, 255, B.B255, E.MASK]
    for op in ("ADDMOD", "MULMOD"):
        for a, b, c in itertools.product(six, repeat=3):
            yield [B.P(c), B.P(b), B.P(a), B.I(op)]
        for a, b in itertools.product(six, repeat=2):
            yield [B.P(b), B.P(a), B.I(op)]
            yield [B.P(b), B.I("SWAP1"), B.P(a), B.I(op)]
    for n in range(1, 9):
        for base in ([], [B.P(0)], [B.P(1)], [B.P(E.MASK)], [B.I("EQ")], [B.I("LT")], [B.I("DUP1")]):
            yield base + [B.I("ISZERO")] * n
            yield base + [B.I("NOT")] * n
            yield base + [B.I("ISZERO"), B.I("NOT")] * (n // 2 + 1)
    # 17..20 live values
    for n in range(15, 21):
        yield [B.P(i + 1) for i in range(n)] + [B.I("ADD")] * (n - 1)
        yield [B.P((i + 1) << 200) for i in range(n)] + [B.I("ADD")] * (n - 1)
        yield [B.P(i + 1) for i in range(n)] + [B.I("MSTORE")] * (n // 2)
        yield [B.I("CALLER")] + [B.I("DUP1")] * n + [B.I("ADD")] * n
        yield [B.P(i + 1) for i in range(n)] + [B.I("SWAP16"), B.I("POP")] + [B.I("ADD")] * (n - 2)
        yield [B.I("DUP16")] * 4 + [B.I("ADD")] * 4 + [B.P(i) for i in range(n - 14)] + [B.I("POP")] * (n - 14)
    # long chains
    for n in (20, 30, 40):
        yield [B.P(1), B.I("ADD")] * n
        yield [B.I("DUP2"), B.I("DUP2"), B.I("MSTORE"), B.P(32), B.I("ADD")] * (n // 4)


def heavy_family():
    """shared subterms (a DAG whose tree unfolding is exponential)"""
    for n in (6, 10):
        yield [B.I("DUP1"), B.I("MLOAD"), B.I("ADD")] * n
        yield [B.I("DUP1"), B.I("MUL")] * n
        yield [B.I("DUP1"), B.I("ADD")] * n
    # instances far beyond the budget (time doubles with every repetition): see known_findings.txt
    yield [B.I("DUP1"), B.I("MLOAD"), B.I("ADD")] * 16
    yield [B.I("DUP1"), B.I("ADD")] * 20
    yield [B.I("DUP1"), B.I("MUL")] * 20


def work_a(ctx, block):
    r0 = resource.getrusage(resource.RUSAGE_SELF)
    t0 = time.process_time()
    r = driver.run_block(ctx, block)
    cpu = time.process_time() - t0
    r1 = resource.getrusage(resource.RUSAGE_SELF)
    tries = 0
    while cpu > CPU_BUDGET_S and tries < 2:
        # CPU time of one unit can be inflated by the kernel (copy-on-write faults after fork, contention): only a
        # block that is over budget on every attempt counts
        tries += 1
        t0 = time.process_time()
        r = driver.run_block(ctx, block)
        cpu = min(cpu, time.process_time() - t0)
    out = {"cpu": cpu, "rss_growth_kb": r1.ru_maxrss - r0.ru_maxrss, "raised": None, "changed": r["changed"]}
    if r["raised"]:
        out["raised"] = (r["raised"][0], r["raised"][1], r["raised"][2][-800:])
    return out


def norm_exc(text):
    import re
    t = re.sub(r"[0-9]{4,}", "N", text)
    return t[:80]


# ------------------------------------------------------------------------------------------------------------ (b)

SEAMS = [
    ("sfs_generator.ir_block", "evm2rbr_compiler"),
    ("gasol_asm", "greedy_standalone"),
    ("gasol_asm", "asm_from_ids"),
    ("gasol_asm", "rebuild_optimized_asm_block"),
    ("gasol_asm", "verify_block_from_list_of_sfs"),
    ("gasol_asm", "compare_forves"),
    ("gasol_asm", "generate_statistics_info"),
    ("gasol_asm", "block_has_been_optimized"),
]
EXCS = {"Exception": Exception, "ValueError": ValueError, "KeyError": KeyError, "RecursionError": RecursionError,
        "MemoryError": MemoryError, "AssertionError": AssertionError,
        # payload shapes the tool's own code raises: no argument at all (bare `raise ValueError`), a message plus a
        # code (`Exception("Error in RBR generation", 4)`), a non-string argument (`KeyError(3)`)
        "ValueError()": (ValueError, ()), "Exception(msg,code)": (Exception, ("Error in RBR generation", 4)),
        "KeyError(int)": (KeyError, (3,)), "AssertionError()": (AssertionError, ())}


def fault_docs():
    """Contracts of three optimizable blocks each (init code and run code), with stores, splits, pseudo pushes."""
    b1 = [B.P(0), B.I("DUP2"), B.I("ADD"), B.P(0x40), B.I("MSTORE")]
    b2 = [B.I("DUP1"), B.P(1), B.I("SWAP1"), B.I("POP"), B.I("SLOAD"), B.I("PUSH [tag]", "3"), B.I("JUMPI")]
    b3 = [B.P(5), B.P(0), B.I("ADD"), B.I("DUP1"), B.I("SWAP1"), B.I("LOG1"), B.P(1), B.P(1), B.I("MUL"), B.I("STOP")]
    b4 = [B.I("CALLVALUE"), B.I("DUP1"), B.I("ISZERO"), B.I("ISZERO"), B.I("ISZERO"), B.I("PUSH [tag]", "1"),
          B.I("JUMPI")]
    b5 = [B.P(1), B.P(2), B.I("SWAP1"), B.I("SUB"), B.P(0), B.I("SSTORE"), B.P(0), B.I("DUP1"), B.I("RETURN")]
    yield docs.make_doc({"a.sol:A": docs.make_contract([b4, b5], [b1, b2, b3])})
    yield docs.make_doc({"a.sol:A": docs.make_contract([b1, b2, b3], [b5])})


def run_doc(cfg, doc, tag="in"):
    """Run the real document pipeline in this process; returns (exception text or None, output doc or None)."""
    import gasol_asm as G
    path = "%s.json_solc" % tag
    docs.write_doc(doc, path)
    outp = "%s_optimized.json_solc" % tag
    if os.path.exists(outp):
        os.remove(outp)
    params = repo.make_params([path] + list(cfg))
    repo.apply_process_options(params)
    exc = None
    with repo.quiet():
        try:
            G.optimize_asm_in_asm_format(params)
        except (repo.UnitTimeout,):
            raise
        except BaseException as e:
            exc = "%s: %s" % (type(e).__name__, str(e)[:200])
    out = None
    if os.path.exists(outp):
        try:
            out = json.load(open(outp))
        except Exception as e:
            exc = (exc or "") + " | output unreadable: %s" % e
    return exc, out


class Injector:
    def __init__(self):
        self.calls = {}
        self.plan = None  # (seam index, n, exception class)
        self.orig = {}
        self.fired = False

    def install(self):
        import importlib
        for si, (mod, attr) in enumerate(SEAMS):
            m = importlib.import_module(mod)
            f = getattr(m, attr)
            self.orig[si] = (m, attr, f)
            setattr(m, attr, self._wrap(si, f))

    def uninstall(self):
        for si, (m, attr, f) in self.orig.items():
            setattr(m, attr, f)

    def _wrap(self, si, f):
        def g(*a, **k):
            self.calls[si] = self.calls.get(si, 0) + 1
            if self.plan and self.plan[0] == si and self.plan[1] == self.calls[si]:
                self.fired = True
                exc = self.plan[2]
                if isinstance(exc, tuple):
                    raise exc[0](*exc[1])
                raise exc("injected fault at %s call %d" % (SEAMS[si][1], self.calls[si]))
            return f(*a, **k)
        return g

    def reset(self, plan=None):
        self.calls = {}
        self.plan = plan
        self.fired = False


def setup_b(arg):
    cfg, doc = arg
    inj = Injector()
    inj.install()
    inj.reset()
    exc, base = run_doc(cfg, doc, "base")
    return {"cfg": cfg, "doc": doc, "inj": inj, "base_exc": exc, "base": base, "calls": dict(inj.calls)}


def work_b(st, unit):
    if unit == "baseline":
        return {"baseline": True, "exc": st["base_exc"], "has_out": st["base"] is not None, "calls": st["calls"],
                "changed_blocks": _count_changed(st["doc"], st["base"]) if st["base"] else None}
    si, n, exc_name = unit
    inj = st["inj"]
    inj.reset((si, n, EXCS[exc_name]))
    exc, out = run_doc(st["cfg"], st["doc"], "f")
    res = {"baseline": False, "fired": inj.fired, "escaped": exc, "has_out": out is not None, "problem": None}
    if not inj.fired:
        return res
    if exc is not None:
        res["problem"] = "exception-escaped"
    elif out is None:
        res["problem"] = "no-output"
    else:
        res["problem"] = _compare_with_baseline(st["doc"], st["base"], out)
    return res


def _blocks(doc):
    out = []
    for path, items in docs.code_streams(doc):
        for bi, blk in enumerate(docs.split_items(items)):
            out.append((path, bi, blk))
    return out


def _count_changed(doc_in, doc_out):
    a, b = _blocks(doc_in), _blocks(doc_out)
    return sum(1 for x, y in zip(a, b) if x[2] != y[2])


def _compare_with_baseline(doc_in, base, out):
    if base is None:
        return None
    bi, bb, bo = _blocks(doc_in), _blocks(base), _blocks(out)
    if not (len(bi) == len(bb) == len(bo)):
        return "block-structure-changed"
    diff = [k for k in range(len(bb)) if bb[k][2] != bo[k][2]]
    if docs.strip_code(base) != docs.strip_code(out):
        return "metadata-differs"
    if len(diff) > 1:
        return "more-than-one-block-differs(%d)" % len(diff)
    if len(diff) == 1:
        k = diff[0]
        if docs.block_of_items(bo[k][2]) != docs.block_of_items(bi[k][2]):
            return "faulted-block-not-equal-to-input"
    return None


# ------------------------------------------------------------------------------------- (c) natural analysis failures

def poison_candidates():
    """Blocks on which the analysis itself gives up (no injection): whether they do is established at run time."""
    P, I = B.P, B.I
    return [[I("PC"), P(1), I("ADD"), P(0), I("SSTORE"), I("STOP")],
            [I("PC"), I("DUP1"), I("ADD"), I("PUSH [tag]", "1"), I("JUMP")]]


def natural_docs(poison):
    """Two contracts, each with init code, run code and a second code-bearing data section; the poison block is put
    at every (contract, section, index) in turn.  Yields (placement, document with the poison, fault-free document
    with a harmless block of the same shape in its place)."""
    P, I = B.P, B.I
    good = [[P(0), I("DUP2"), I("ADD"), P(0x40), I("MSTORE"), I("PUSH [tag]", "1"), I("JUMP")],
            [P(1), I("DUP2"), I("ADD"), I("SWAP1"), I("POP"), P(0), I("ADD"), I("PUSH [tag]", "1"), I("JUMP")],
            [I("CALLVALUE"), I("DUP1"), I("ISZERO"), I("ISZERO"), I("ISZERO"), I("PUSH [tag]", "1"), I("JUMPI")],
            [P(1), P(2), I("SWAP1"), I("SUB"), P(0), I("SSTORE"), P(0), I("DUP1"), I("RETURN")]]
    harmless = [I("CALLVALUE"), P(1), I("ADD"), P(0), I("SSTORE"), I("STOP")]
    layout = {"a.sol:A": {"init": [good[2], good[3]], "run": [good[1], good[0], good[3]], "aux": [good[1], good[3]]},
              "b.sol:B": {"init": [good[1], good[3]], "run": [good[0], good[3]], "aux": [good[2], good[3]]}}

    def build(repl):
        cs = {}
        for cname, secs in layout.items():
            secs = {k: list(v) for k, v in secs.items()}
            if repl and repl[0] == cname:
                secs[repl[1]][repl[2]] = repl[3]
            cs[cname] = docs.make_contract(secs["init"], secs["run"], more_run_blocks=[secs["aux"]])
        return docs.make_doc(cs)

    for cname, secs in layout.items():
        for sec, blks in secs.items():
            for idx in range(len(blks)):
                if cname == "b.sol:B" and idx > 0:
                    continue
                yield [cname, sec, idx], build((cname, sec, idx, poison)), build((cname, sec, idx, harmless))


def setup_c(cfg):
    repo.load()
    return {"cfg": cfg}


def work_c(st, unit):
    poison, placement, doc_p, doc_f = unit
    # the fault-free document first: state left behind by a failure must not reach it
    exc_f, out_f = run_doc(st["cfg"], doc_f, "nf")
    exc_p, out_p = run_doc(st["cfg"], doc_p, "np")
    res = {"problem": None, "failed_naturally": False, "others_optimized": 0}
    if exc_f or out_f is None:
        return dict(res, problem="fault-free-run-failed: %s" % exc_f)
    if exc_p:
        return dict(res, problem="exception-escaped", detail=exc_p)
    if out_p is None:
        return dict(res, problem="no-output")
    bi, bf, bp = _blocks(doc_p), _blocks(out_f), _blocks(out_p)
    bif = _blocks(doc_f)
    if not (len(bi) == len(bf) == len(bp)):
        return dict(res, problem="block-structure-changed")
    where = [k for k in range(len(bi)) if bi[k][2] != bif[k][2]]
    if len(where) != 1:
        return dict(res, problem="harness: documents differ in %d blocks" % len(where))
    k0 = where[0]
    res["failed_naturally"] = docs.block_of_items(bp[k0][2]) == docs.block_of_items(bi[k0][2])
    diff = [k for k in range(len(bf)) if k != k0 and bf[k][2] != bp[k][2]]
    res["others_optimized"] = sum(1 for k in range(len(bf)) if k != k0 and bp[k][2] != bi[k][2])
    if diff:
        k = diff[0]
        return dict(res, problem="other-block-differs", detail={
            "block": [list(bp[k][0]), bp[k][1]], "fault_free": B.to_text(docs.block_of_items(bf[k][2])),
            "with_failing_block": B.to_text(docs.block_of_items(bp[k][2]))})
    if docs.strip_code(out_f) != docs.strip_code(out_p):
        return dict(res, problem="metadata-differs")
    return res


# ------------------------------------------------------------------------------------------------------------ main

def main(tier, seed, only=None):
    chk = report.Check("C10", "fault_enumeration", tier, seed)
    chk.cov["rule"] = ("(a) constant-operand / chain / deep-live families x option sets through optimize+compare under "
                       "CPU<=5s and RSS growth<=1GiB, no escaping exception; (b) every (seam, n-th call, exception "
                       "type) of the per-block pipeline in 3-block contracts driven through optimize_asm_in_asm_format;"
                       " non-trivial = injected faults that actually fired + blocks the optimizer changed")
    stats = {"a_units": 0, "a_raised": 0, "a_budget": 0, "a_changed": 0, "b_units": 0, "b_fired": 0, "b_problems": 0}
    max_cpu = [0.0]
    max_rss = [0]
    # ---- (a)
    if not only or only == "a":
        # pure stack manipulation (permutations below an unchanged top, copies, drops): the back-ends have loops
        # that only these blocks reach; and the general prefix tree every other check uses
        stack7 = [B.I("SWAP1"), B.I("SWAP2"), B.I("SWAP3"), B.I("DUP1"), B.I("DUP2"), B.I("POP"), B.P(1)]
        fam = (list(const_family()) + families.vocabulary_family() + list(B.tree(stack7, 4, max_need=5))
               + list(B.tree(B.CORE, 3)))
        if tier != "quick":
            fam += list(families.rule_family(1))
        cfgs = configs.configs(1)

        new_budget = [0]

        def on_a(cfg, block, status, value):
            chk.add("evaluations")
            stats["a_units"] += 1
            if status != "ok":
                stats["a_budget"] += 1
                if chk.violation("budget;%s;shape=%s" % (status, shape(block)),
                                 {"part": "a", "block": B.to_text(block), "config": list(cfg), "status": status}):
                    new_budget[0] += 1
                return
            if value["cpu"] > 1.0:
                chk.cov.setdefault("slow_units", []).append([B.to_text(block)[:300], list(cfg), round(value["cpu"], 2)])
            max_cpu[0] = max(max_cpu[0], value["cpu"])
            max_rss[0] = max(max_rss[0], value["rss_growth_kb"])
            if value["changed"]:
                stats["a_changed"] += 1
            if value["cpu"] > CPU_BUDGET_S or value["rss_growth_kb"] > RSS_BUDGET_KB:
                chk.violation("budget;cpu-or-rss;shape=%s" % shape(block),
                              {"part": "a", "block": B.to_text(block), "config": list(cfg), "cpu": value["cpu"],
                               "rss_growth_kb": value["rss_growth_kb"]})
            if value["raised"]:
                stats["a_raised"] += 1
                chk.violation("raised;%s;%s" % (value["raised"][0], norm_exc(value["raised"][1])),
                              {"part": "a", "block": B.to_text(block), "config": list(cfg),
                               "stage": value["raised"][0], "exception": value["raised"][1],
                               "traceback": value["raised"][2]})

        heavy = list(heavy_family())
        tasks = [(cfg, [b]) for cfg in cfgs[:2] for b in heavy]
        tasks += [(cfg, ch) for cfg in cfgs for ch in pool.chunks(fam, max(200, len(fam) // 16 + 1))]
        pool.run_tasks(tasks, work_a, setup=driver.setup_ctx, unit_timeout=CPU_BUDGET_S * 4, on_result=on_a,
                       stop=lambda: new_budget[0] >= 30)
        if new_budget[0] >= 30:
            chk.cov["stopped_early"] = "part (a) stopped after 30 units over budget that no known finding explains"
        chk.sample({"part": "a", "family_size": len(fam), "configs": len(cfgs), "example": B.to_text(fam[17])})
    # ---- (b)
    if not only or only == "b":
        cfg_b = [("-greedy",)] if tier == "quick" else [("-greedy",), ("-greedy", "-storage"), ("-greedy", "-size")]
        exc_names = (["Exception", "RecursionError", "MemoryError", "ValueError()", "Exception(msg,code)", "KeyError(int)"]
                     if tier == "quick" else list(EXCS))
        for cfg in cfg_b:
            for di, doc in enumerate(fault_docs()):
                # 1. baseline in its own child: learn how many times each seam is called
                info = {}

                def on_base(arg, unit, status, value):
                    info["status"], info["value"] = status, value

                pool.run_tasks([((cfg, doc), ["baseline"])], work_b, setup=setup_b, unit_timeout=120,
                               on_result=on_base)
                if info.get("status") != "ok" or info["value"]["exc"] or not info["value"]["has_out"]:
                    chk.violation("baseline-run-failed", {"part": "b", "config": list(cfg), "doc": doc,
                                                          "info": str(info)[:500]})
                    continue
                calls = info["value"]["calls"]
                chk.sample({"part": "b", "config": list(cfg), "doc_blocks": len(_blocks(doc)),
                            "seam_calls": {SEAMS[int(k)][1]: v for k, v in calls.items()},
                            "blocks_changed_fault_free": info["value"]["changed_blocks"]})
                units = []
                for si, ncalls in sorted(calls.items()):
                    for n in range(1, ncalls + 1):
                        for en in exc_names:
                            units.append((int(si), n, en))

                def on_b(arg, unit, status, value):
                    chk.add("evaluations")
                    stats["b_units"] += 1
                    if status != "ok":
                        chk.violation("fault;harness-%s;%s" % (status, SEAMS[unit[0]][1]),
                                      {"part": "b", "unit": list(unit), "config": list(arg[0]), "doc": arg[1],
                                       "status": status, "detail": str(value)[:300]})
                        return
                    if value["fired"]:
                        stats["b_fired"] += 1
                    if value["problem"]:
                        stats["b_problems"] += 1
                        chk.violation("fault;%s;%s" % (value["problem"], SEAMS[unit[0]][1]),
                                      {"part": "b", "seam": SEAMS[unit[0]][1], "nth_call": unit[1],
                                       "exception": unit[2], "config": list(arg[0]), "doc": arg[1],
                                       "escaped": value["escaped"]})

                tasks = [((cfg, doc), ch) for ch in pool.chunks(units, 12)]
                pool.run_tasks(tasks, work_b, setup=setup_b, unit_timeout=120, on_result=on_b)
    # ---- (c) blocks on which the analysis fails by itself, at every placement of a two-contract document
    if not only or only == "c":
        cfg_c = [("-greedy",)] if tier == "quick" else [("-greedy",), ("-greedy", "-storage"), ("-greedy", "-size")]
        units = []
        for pb in poison_candidates():
            for placement, dp, df in natural_docs(pb):
                units.append((pb, placement, dp, df))
        stats.update({"c_units": 0, "c_failed_naturally": 0, "c_others_optimized": 0})

        def on_c(cfg, unit, status, value):
            chk.add("evaluations")
            stats["c_units"] += 1
            if status != "ok":
                chk.violation("natural;harness-%s" % status, {"part": "c", "config": list(cfg), "detail": str(value)[:300]})
                return
            if value["failed_naturally"]:
                stats["c_failed_naturally"] += 1
            stats["c_others_optimized"] += value["others_optimized"]
            if value["problem"]:
                pr = value["problem"]
                if pr.startswith("harness") or pr.startswith("fault-free-run-failed"):
                    chk.violation("harness-" + pr[:40], {"detail": pr})
                    return
                chk.violation("natural;%s;%s" % (pr, unit[1][1]),
                              {"part": "c", "config": list(cfg), "poison": B.to_text(unit[0]), "placement": unit[1],
                               "doc": unit[2], "doc_fault_free": unit[3], "detail": value.get("detail")})

        pool.run_tasks([(cfg, [u]) for cfg in cfg_c for u in units], work_c, setup=setup_c, unit_timeout=180,
                       on_result=on_c)
        chk.cov["natural_failures"] = {"documents": stats["c_units"], "block_kept_unchanged": stats["c_failed_naturally"],
                                       "other_blocks_optimized": stats["c_others_optimized"],
                                       "rule": "a block on which the analysis gives up by itself (PC whose value is used) "
                                               "at every placement of a two-contract, three-section document; all other "
                                               "blocks must come out exactly as in the run of the same document with a "
                                               "harmless block in that place"}
    chk.cov.update({"family_pipeline_runs": stats["a_units"], "family_blocks_changed": stats["a_changed"],
                    "family_raised": stats["a_raised"], "family_over_budget": stats["a_budget"],
                    "max_cpu_s": round(max_cpu[0], 3), "max_rss_growth_kb": max_rss[0],
                    "fault_runs": stats["b_units"], "faults_fired": stats["b_fired"],
                    "fault_problems": stats["b_problems"],
                    "distinct_nontrivial": stats["b_fired"] + stats["a_changed"] + stats.get("c_failed_naturally", 0)})
    guards = {}
    if not only or only == "b":
        guards["faults_fired"] = stats["b_fired"]
    if not only or only == "a":
        guards["family_blocks_changed"] = stats["a_changed"]
    return chk.finish(guards=guards)


def shape(block):
    """Compressed form of a block: "(unit)*k" when it is a repetition, else its opcode set."""
    n = len(block)
    for u in range(1, n // 2 + 1):
        if n % u == 0 and block == block[:u] * (n // u):
            return "(%s)*%d" % (B.to_text(block[:u]), n // u)
    return "ops=[%s]" % _ops(block)


def _ops(block):
    return ",".join(sorted({op for op, _ in block if not (op.startswith("DUP") or op.startswith("SWAP")
                                                          or op in ("POP", "PUSH"))}))


def replay(path):
    w = json.load(open(path))
    res = {}

    def on_r(arg, unit, status, value):
        res["status"], res["value"] = status, value

    if w.get("part") == "a":
        from .c01 import parse_text
        pool.run_tasks([(tuple(w["config"]), [parse_text(w["block"])])], work_a, setup=driver.setup_ctx,
                       unit_timeout=CPU_BUDGET_S * 2, on_result=on_r)
        v = res.get("value")
        bad = res.get("status") != "ok" or v["raised"] or v["cpu"] > CPU_BUDGET_S
    elif w.get("part") == "c":
        from .c01 import parse_text
        pool.run_tasks([(tuple(w["config"]), [(parse_text(w["poison"]), w["placement"], w["doc"], w["doc_fault_free"])])],
                       work_c, setup=setup_c, unit_timeout=300, on_result=on_r)
        v = res.get("value")
        bad = res.get("status") == "ok" and bool(v["problem"])
    else:
        si = [s[1] for s in SEAMS].index(w["seam"])
        pool.run_tasks([((tuple(w["config"]), w["doc"]), [(si, w["nth_call"], w["exception"])])], work_b,
                       setup=setup_b, unit_timeout=120, on_result=on_r)
        v = res.get("value")
        bad = res.get("status") != "ok" or (v and v["problem"])
    print("replay:", res.get("status"), str(res.get("value"))[:400])
    if bad:
        print("VIOLATION property=C10 replay=%s" % path)
        return 1
    print("no violation on replay")
    return 0
