"""Bounded-exhaustive model checking machinery for costa-group/gasol-optimizer (see /verif/DESIGN.md)."""
