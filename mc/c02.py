"""C02 -- the stack/memory specification denotes the block under every admissible schedule.

For every enumerated block x split mode x rule setting: take the specifications the front-end produces, enumerate
ALL linearizations of each specification's memory/storage operations that respect its declared dependencies and
producer-before-consumer, evaluate each on every state of an aliasing-forcing domain (E4), and compare with the
reference EVM run of the block.
"""
import itertools
import json

from . import blocks as B
from . import configs, driver, evm_ref as E, pool, report, families, spec_eval as SE

NAME = "verif_block_0"

SPLITS = [(), ("-storage",), ("-partition",)]
RULES = [(), ("-no-simplification",)]


def cfgs():
    out = []
    for s in SPLITS:
        for r in RULES:
            out.append(tuple(s + r + ("-greedy",)))
    return out


def mem_states(k):
    """Aliasing-forcing domain for the memory families: inputs (x, y, v) = (address, address, value)."""
    small = [0, 1, 2, 31, 32, 33, 64, 65]
    out = []
    if k == 0:
        return [E.State([], 0), E.State([], 1, mem_zero=True, sto_zero=True)]
    for x, y in itertools.product(small, repeat=2):
        for v in (0x1122334455667788990011223344556677889900AABBCCDDEEFF0102030405F6, 1):
            stack = [v, y, x][-k:] if k <= 3 else [7] * (k - 3) + [v, y, x]
            out.append(E.State(stack, 0))
    out.append(E.State(([5, 0, 0] if k >= 3 else [0] * k)[-k:] if k <= 3 else [7] * (k - 3) + [5, 0, 0], 1,
                       mem_zero=True, sto_zero=True))
    for big in (E.MASK, E.MASK - 31, 1 << 255):
        stack = [3, 32, big][-k:] if k <= 3 else [7] * (k - 3) + [3, 32, big]
        out.append(E.State(stack, 0))
    return B.dedup_states(out)


_ST_CACHE = {}


def states_for(block, mem):
    k = E.need_delta(block)[0]
    key = (k, mem)
    if key not in _ST_CACHE:
        _ST_CACHE[key] = mem_states(k) if mem else B.dedup_states(B.domain(k))
    return _ST_CACHE[key]


def check_block(ctx, block, mem=True, lin_cap=720, name=NAME):
    """Returns (violation dict or None, stats dict)."""
    stats = {"specs": 0, "lins": 0, "lins_beyond_first": 0, "unordered_specs": 0, "states": 0, "oog": 0,
             "cap_hit": 0, "rules": []}
    specs, subs = driver.specs_for(ctx, block, name=name)
    for s in specs.values():
        stats["rules"].extend(s.get("rules", []))
    stats["specs"] = len(specs)
    base_pieces = SE.pieces_for(block, specs, subs, name)
    spec_idx = [i for i, p in enumerate(base_pieces) if p[0] == "spec"]
    # reference runs
    states = states_for(block, mem)
    ref = []
    for st in states:
        try:
            ref.append((st, E.run(block, st)))
        except E.OOG:
            stats["oog"] += 1
    # schedule space: vary one specification's linearization at a time (the others keep their first one); the
    # specifications of different sub-blocks are separated by the split instruction, so they do not interleave
    plans = [(None, None)]
    for i in spec_idx:
        sp = base_pieces[i][1]
        lins = list(SE.linearizations(sp, cap=lin_cap + 1))
        if len(lins) > lin_cap:
            stats["cap_hit"] += 1
            lins = lins[:lin_cap]
        if len(lins) > 1:
            stats["unordered_specs"] += 1
        for L in lins[1:]:
            plans.append((i, L))
    for which, L in plans:
        pieces = base_pieces
        if which is not None:
            pieces = list(base_pieces)
            pieces[which] = ("spec", base_pieces[which][1], L)
            stats["lins_beyond_first"] += 1
        stats["lins"] += 1
        for st, ra in ref:
            try:
                rb = SE.run_spec_chain(pieces, st)
            except E.OOG:
                stats["oog"] += 1
                continue
            except E.Underflow as e:
                return _viol(ctx, block, specs, pieces, which, st, {"kind": "spec-underflow", "at": str(e)}), stats
            stats["states"] += 1
            d = E.compare_results(ra, rb, st)
            if d is not None:
                return _viol(ctx, block, specs, pieces, which, st, d), stats
    return None, stats


def _viol(ctx, block, specs, pieces, which, st, diff):
    diff = dict(diff)
    diff["state"] = st.key()
    orders = [p[2] for p in pieces if p[0] == "spec"]
    return {"block": B.to_text(block), "config": list(ctx.cfg), "linearization": orders,
            "varied_spec": which, "diff": diff,
            "dependencies": {k: v.get("dependencies") for k, v in specs.items()},
            "rules": sorted({r for v in specs.values() for r in v.get("rules", [])}),
            "shape": shape_of(block)}


def shape_of(block):
    """Coarse shape of the memory behaviour: multiset of stateful opcodes."""
    ops = sorted(op for op, _ in block if op in SE.STATEFUL)
    return ",".join(ops)


def work(ctx, unit):
    block, mem = unit
    try:
        v, stats = check_block(ctx, block, mem)
    except SE.SpecError as e:
        return {"viol": {"block": B.to_text(block), "config": list(ctx.cfg), "diff": {"kind": "spec-error",
                "what": str(e)}, "shape": shape_of(block), "rules": []}, "stats": None, "raised": None}
    except repo_timeout():
        raise
    except Exception as e:  # the front-end raised: C10's concern, counted here
        return {"viol": None, "stats": None, "raised": "%s: %s" % (type(e).__name__, str(e)[:120])}
    return {"viol": v, "stats": stats, "raised": None}


def repo_timeout():
    from . import repo
    return (repo.UnitTimeout, MemoryError)


def signature(v):
    from .c01 import norm_rule
    rules = sorted({norm_rule(r) for r in v.get("rules", [])})
    return "%s;ops=[%s];rules=[%s];split=%s" % (v["diff"]["kind"], v["shape"], ",".join(rules),
                                                "+".join(c for c in v["config"] if c in ("-storage", "-partition")) or "none")


def unit_sets(tier):
    mem_alpha = [B.P(0), B.P(1), B.P(0x20), B.I("DUP1"), B.I("DUP2"), B.I("SWAP1"), B.I("ADD"), B.I("POP")] + B.A_MEM
    if tier == "quick":
        yield "mem-family(2)", [(b, True) for b in families.mem_family(2)], cfgs()
        yield "tree(MEMALPHA,3)", [(b, True) for b in B.tree(mem_alpha, 3, max_need=3)], cfgs()
        sw = list(families.sandwich_family())
        yield "sandwich-family/2", [(b, True) for b in sw[::2]], [("-greedy",), ("-no-simplification", "-greedy")]
        yield "vocabulary-family", [(b, False) for b in families.vocabulary_family()], cfgs()
        yield "three-store-family", [(b, True) for b in families.three_store_family()], [("-greedy",), ("-no-simplification", "-greedy")]
    else:
        yield "three-store-family", [(b, True) for b in families.three_store_family()], cfgs()
        yield "sandwich-family", [(b, True) for b in families.sandwich_family()], cfgs()
        yield "mem-family(2)", [(b, True) for b in families.mem_family(2)], cfgs()
        yield "mem-family(3)", [(b, True) for b in families.mem_family(3)], cfgs()
        yield "tree(MEMALPHA,4)", [(b, True) for b in B.tree(mem_alpha, 4, max_need=3)], cfgs()
        yield "vocabulary-family", [(b, False) for b in families.vocabulary_family()], cfgs()


def main(tier, seed, only=None):
    chk = report.Check("C02", "model_checking", tier, seed)
    chk.cov["rule"] = ("specifications of memory families and prefix trees x {no split,-storage,-partition} x "
                       "{rules on,off}; ALL linearizations of each specification's memory/storage operations "
                       "compatible with its dependencies and data flow x aliasing-forcing states; non-trivial = "
                       "linearizations beyond the first of a specification")
    chk.assumptions = ["keccak/loads/stores are the only state-dependent operations inside a sub-block",
                       "linearizations of different sub-blocks do not interleave (separated by the split instruction)"]
    tot = {"specs": 0, "lins": 0, "lins_beyond_first": 0, "unordered_specs": 0, "states": 0, "oog": 0, "cap_hit": 0}
    other = {"raised": 0, "budget": 0, "blocks": 0}
    sets = {}

    def on_result(cfg, unit, status, value):
        chk.add("evaluations")
        if status != "ok":
            other["budget"] += 1
            return
        other["blocks"] += 1
        if value["raised"]:
            other["raised"] += 1
        st = value["stats"]
        if st:
            for k in tot:
                tot[k] += st[k]
            if st["lins"] > 1 and tot["lins"] % 50 < 2:
                chk.sample({"block": B.to_text(unit[0]), "config": list(cfg), "linearizations": st["lins"],
                            "states": st["states"]})
        if value["viol"]:
            chk.violation(signature(value["viol"]), value["viol"])

    for name, units, cs in unit_sets(tier):
        if only and only not in name:
            continue
        sets[name] = {"blocks": len(units), "configs": len(cs)}
        tasks = [(cfg, ch) for cfg in cs for ch in pool.chunks(units, max(200, len(units) // 16 + 1))]
        pool.run_tasks(tasks, work, setup=driver.setup_ctx, unit_timeout=30, on_result=on_result)
    chk.cov.update({"sets": sets, "states": tot["lins"], "transitions": tot["states"],
                    "traces_validated_against_impl": tot["lins"],
                    "specifications": tot["specs"], "linearizations": tot["lins"],
                    "linearizations_beyond_first": tot["lins_beyond_first"],
                    "specs_with_unordered_ops": tot["unordered_specs"], "state_evaluations": tot["states"],
                    "oog_states_skipped": tot["oog"], "linearization_cap_hit": tot["cap_hit"],
                    "frontend_raised": other["raised"], "skipped_budget": other["budget"],
                    "distinct_nontrivial": tot["lins_beyond_first"],
                    "explanation": "states = schedules (linearizations) explored; transitions = (schedule, machine "
                                   "state) evaluations; each schedule is executed on the specification produced by "
                                   "the real front-end and compared with the reference run of the block"})
    if not chk.cov["samples"]:
        chk.sample({"note": "no specification with more than one linearization"})
    return chk.finish(guards={"linearizations_beyond_first": tot["lins_beyond_first"], "state_evaluations": tot["states"]})


def replay(path):
    w = json.load(open(path))
    from .c01 import parse_text
    block = parse_text(w["block"])
    res = {}

    def on_result(cfg, unit, status, value):
        res["status"], res["value"] = status, value

    pool.run_tasks([(tuple(w["config"]), [(block, True)])], work, setup=driver.setup_ctx, unit_timeout=60,
                   on_result=on_result)
    v = res.get("value")
    if res.get("status") == "ok" and v["viol"]:
        print("VIOLATION property=C02 replay=%s" % path)
        print("  " + json.dumps(v["viol"]["diff"]))
        return 1
    print("no violation on replay (%s)" % res.get("status"))
    return 0
