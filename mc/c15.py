"""C15 -- parsing and serialization round-trip.

(1) to_json(parse_asm(D)) == D for shipped and grammar-generated asm-JSON documents (modulo the documented PUSH0
    spelling when PUSH0 is enabled);
(2) parse_plain(to_plain(B)) == B and parse_plain(to_plain_with_byte_number(B)) == B for enumerated blocks;
(3) every textual spelling of a constant parses to its numeric value.
"""
import copy
import glob
import itertools
import json
import os

from . import blocks as B
from . import docs, evm_ref as E, pool, report, repo


# ---------------------------------------------------------------------------------------------------------- docs

def item(name, value=None, **extra):
    it = {"begin": 7, "end": 9, "name": name, "source": 1}
    if value is not None:
        it["value"] = value
    it.update(extra)
    return it


def code_pool():
    """Code streams exercising every item kind and optional field."""
    plain = [item("PUSH", "80"), item("PUSH", "40"), item("MSTORE"), item("CALLVALUE"), item("DUP1"), item("ISZERO"),
             item("PUSH [tag]", "1"), item("JUMPI"), item("PUSH", "0"), item("DUP1"), item("REVERT"),
             item("tag", "1"), item("JUMPDEST"), item("POP"), item("PUSH #[$]", "0000000000000000000000000000000000000000000000000000000000000000"),
             item("DUP1"), item("PUSH [$]", "0000000000000000000000000000000000000000000000000000000000000000"),
             item("PUSH", "0"), item("CODECOPY"), item("PUSH", "0"), item("RETURN")]
    pseudo = [item("tag", "3"), item("JUMPDEST"), item("PUSHLIB", "__$abc123$__"), item("PUSHLIB", "__$def456$__"),
              item("PUSHLIB", "__$abc123$__"), item("PUSH data", "A1B2C3"), item("PUSHIMMUTABLE", "deadbeef"),
              item("PUSHSIZE"), item("PUSHDEPLOYADDRESS"), item("PUSH", "FFFFFFFFFFFFFFFFFFFFFFFFFFFFFFFFFFFFFFFF"),
              item("AND"), item("ASSIGNIMMUTABLE", "deadbeef"), item("PUSH [tag]", "4"), item("JUMP", jumpType="[in]"),
              item("tag", "4"), item("JUMPDEST"), item("SWAP1", modifierDepth=1), item("POP", modifierDepth=1),
              item("JUMP", jumpType="[out]"), item("tag", "5"), item("JUMPDEST"), item("INVALID")]
    nosource = [{"begin": 1, "end": 2, "name": "PUSH", "value": "1"}, {"begin": 1, "end": 2, "name": "PUSH", "value": "0"},
                {"begin": -1, "end": -1, "name": "ADD", "source": -1}, item("STOP")]
    zeros = [item("PUSH", "0"), item("PUSH", "0"), item("ADD"), item("PUSH", "00"), item("POP"), item("STOP")]
    splits = [item("PUSH", "20"), item("PUSH", "0"), item("LOG0"), item("GAS"), item("PUSH", "1"), item("SSTORE"),
              item("PUSH", "0"), item("PUSH", "0"), item("PUSH", "0"), item("CALLDATACOPY"), item("SELFDESTRUCT")]
    # every item kind x every subset of the optional fields {source, jumpType, modifierDepth} (the reader is generic:
    # it keeps whatever optional field an item has, on whatever item)
    fields = []
    kinds = [("PUSH", "80"), ("PUSH", "0"), ("ADD", None), ("PUSH [tag]", "9"), ("JUMP", None), ("tag", "9"),
             ("JUMPDEST", None), ("PUSHLIB", "__$abc123$__"), ("PUSH data", "A1B2C3"), ("PUSHSIZE", None),
             ("ASSIGNIMMUTABLE", "deadbeef"), ("JUMPI", None), ("POP", None)]
    for name, value in kinds:
        for src, jt, md in itertools.product((True, False), (None, "[in]", "[out]"), (None, 1, 3)):
            it = {"begin": 11, "end": 12, "name": name}
            if src:
                it["source"] = 2
            if value is not None:
                it["value"] = value
            if jt is not None:
                it["jumpType"] = jt
            if md is not None:
                it["modifierDepth"] = md
            fields.append(it)
    fields.append(item("STOP"))
    return {"plain": plain, "pseudo": pseudo, "nosource": nosource, "zeros": zeros, "splits": splits, "empty": [],
            "fields": fields}


def gen_docs(level=1):
    pool_ = code_pool()
    names = list(pool_)
    versions = ["0.8.17+commit.8df45f5f.Linux.g++", "0.8.9+commit.e5eed63a.Linux.g++"]
    for init, run in itertools.product(names, repeat=2):
        for aux in (None, "a26469706673"):
            for sl in (None, ["a.sol", "#utility.yul"]):
                for extra in (0, 1, 2):
                    sub = {".code": copy.deepcopy(pool_[run])}
                    if aux is not None:
                        sub[".auxdata"] = aux
                    if extra >= 1:
                        sub[".data"] = {"A1B2C3": "deadbeefcafe"}
                    if extra >= 2:
                        sub[".data"]["0"] = {".auxdata": "bb", ".code": copy.deepcopy(pool_["zeros"])}
                    asm = {".code": copy.deepcopy(pool_[init]), ".data": {"0": sub}}
                    if extra >= 1:
                        asm[".data"]["ACAF3289D7B601CBD114FB36C4D29C85BBFD5E133F14CB355C3FD8D99367964F"] = "6e6f6e2d7a65726f"
                    if sl is not None:
                        asm["sourceList"] = sl
                    yield {"contracts": {"a.sol:A": {"asm": asm}}, "version": versions[extra % 2]}
    # several contracts, contracts without asm
    one = {"asm": {".code": copy.deepcopy(pool_["plain"]), ".data": {"0": {".auxdata": "aa", ".code": copy.deepcopy(pool_["pseudo"])}}}}
    two = {"asm": {".code": copy.deepcopy(pool_["zeros"]), ".data": {}}}
    for noasm in ({"asm": None}, {}):
        yield {"contracts": {"a.sol:A": copy.deepcopy(one), "a.sol:I": copy.deepcopy(noasm), "dir/b.sol:B": copy.deepcopy(two)},
               "version": versions[0]}
        yield {"contracts": {"a.sol:I": copy.deepcopy(noasm)}, "version": versions[0]}
    yield {"contracts": {}, "version": versions[0]}
    # several code-bearing data sections in one contract (run code + child contracts)
    for a, b in (("plain", "pseudo"), ("zeros", "splits"), ("pseudo", "zeros")):
        asm = {".code": copy.deepcopy(pool_["plain"]),
               ".data": {"0": {".auxdata": "aa", ".code": copy.deepcopy(pool_[a])},
                         "1": {".auxdata": "bb", ".code": copy.deepcopy(pool_[b]),
                               ".data": {"0": {".auxdata": "cc", ".code": copy.deepcopy(pool_["zeros"])}}},
                         "2": {".code": copy.deepcopy(pool_["nosource"])},
                         "ACAF3289D7B601CBD114FB36C4D29C85BBFD5E133F14CB355C3FD8D99367964F": "6e6f6e"}}
        yield {"contracts": {"a.sol:Factory": {"asm": asm}}, "version": versions[0]}
    # contract with run code but empty init, no .data key at all is not solc output -> not generated


def normalize_push0(doc):
    """The documented spelling change when PUSH0 is enabled: {PUSH, "0"} is written as {PUSH0} without value."""
    d = copy.deepcopy(doc)
    for _p, items in docs.code_streams(d):
        for it in items:
            if it["name"] == "PUSH" and it.get("value") == "0":
                it["name"] = "PUSH0"
                del it["value"]
    return d


def roundtrip_doc(doc, push0):
    from sfs_generator.parser_asm import parse_asm
    import global_params.constants as constants
    constants._set_push0(push0)
    path = "rt_in.json"
    docs.write_doc(doc, path)
    with repo.quiet():
        out = parse_asm(path).to_json()
    return out


def first_diff(a, b, path="$"):
    if type(a) != type(b):
        return "%s: type %s vs %s" % (path, type(a).__name__, type(b).__name__)
    if isinstance(a, dict):
        for k in a:
            if k not in b:
                return "%s: key %r dropped" % (path, k)
        for k in b:
            if k not in a:
                return "%s: key %r added" % (path, k)
        if list(a) != list(b):
            # key order is not part of the JSON value
            pass
        for k in a:
            d = first_diff(a[k], b[k], "%s.%s" % (path, k))
            if d:
                return d
        return None
    if isinstance(a, list):
        if len(a) != len(b):
            return "%s: length %d vs %d" % (path, len(a), len(b))
        for i, (x, y) in enumerate(zip(a, b)):
            d = first_diff(x, y, "%s[%d]" % (path, i))
            if d:
                return d
        return None
    if a != b:
        return "%s: %r vs %r" % (path, a, b)
    return None


def work_doc(state, unit):
    kind, payload, push0 = unit
    if kind == "file":
        doc = json.load(open(payload))
    else:
        doc = payload
    try:
        out = roundtrip_doc(doc, push0)
    except (repo.UnitTimeout, MemoryError):
        raise
    except Exception as e:
        return {"viol": {"clause": "parse-or-serialize-raised", "detail": "%s: %s" % (type(e).__name__, str(e)[:200])}}
    # when PUSH0 is enabled both spellings of a zero push denote the same item (streams the tool does not parse,
    # such as assemblies nested below .data of a run code, keep their original spelling)
    expected = normalize_push0(doc) if push0 else doc
    d = first_diff(expected, normalize_push0(out) if push0 else out)
    if d:
        return {"viol": {"clause": "document-differs", "detail": d}}
    return {"viol": None, "items": sum(len(i) for _p, i in docs.code_streams(doc))}


# ---------------------------------------------------------------------------------------------------------- blocks

def work_block(state, unit):
    block, push0 = unit
    import global_params.constants as constants
    from sfs_generator.parser_asm import build_blocks_from_asm_representation, parse_blocks_from_plain_instructions
    constants._set_push0(push0)
    with repo.quiet():
        blocks = build_blocks_from_asm_representation("c", "c", B.to_json_items(block), False)
        if len(blocks) != 1:
            return {"viol": None, "skipped": True}
        ab = blocks[0]
        for form in ("to_plain", "to_plain_with_byte_number"):
            text = getattr(ab, form)()
            try:
                back = parse_blocks_from_plain_instructions(text)
            except (repo.UnitTimeout, MemoryError):
                raise
            except Exception as e:
                return {"viol": {"clause": "plain-parse-raised", "form": form, "text": text,
                                 "detail": "%s: %s" % (type(e).__name__, str(e)[:150])}}
            got = [i for b in back for i in B.from_asm_block(b)]
            want = canonical(block)
            if canonical(got) != want:
                return {"viol": {"clause": "plain-roundtrip-differs", "form": form, "text": text,
                                 "got": B.to_text(got), "want": B.to_text(block)}}
    return {"viol": None}


def canonical(block):
    """(name, numeric value / operand) with operands compared numerically where they are numbers, library
    references compared by first-occurrence index (the plain format only carries the index)."""
    out = []
    libs = {}
    for op, arg in block:
        if op == "PUSHLIB":
            a = str(arg)
            if a not in libs:
                libs[a] = len(libs)
            out.append((op, libs[a]))
        elif op in ("PUSH data", "PUSHIMMUTABLE", "PUSH [$]", "PUSH #[$]", "ASSIGNIMMUTABLE") and arg is not None:
            try:
                out.append((op, int(str(arg), 16)))
            except ValueError:
                out.append((op, str(arg)))
        elif op in ("PUSH [tag]", "tag") and arg is not None:
            out.append((op, str(arg).lstrip("0") or "0"))
        else:
            out.append((op, arg))
    return out


# ---------------------------------------------------------------------------------------------------------- spellings

def spellings(c):
    w = max(1, (c.bit_length() + 7) // 8)
    h = "%x" % c
    yield "PUSH%d %d" % (w, c)
    yield "PUSH%d 0x%s" % (w, h)
    yield "PUSH%d 0x%s" % (w, h.upper())
    yield "PUSH%d 0x%s" % (min(32, w + 1), "00" + h)
    yield "PUSH32 0x%s" % h.rjust(64, "0")
    yield "PUSH %s" % h
    yield "PUSH %s" % h.upper()
    yield "PUSH 0x%s" % h
    yield "PUSH 0%s" % h
    if c == 0:
        yield "PUSH0"


def work_spelling(state, unit):
    c, text, push0 = unit
    import global_params.constants as constants
    from sfs_generator.parser_asm import parse_blocks_from_plain_instructions
    constants._set_push0(push0)
    try:
        with repo.quiet():
            bl = parse_blocks_from_plain_instructions(text + " POP")
        got = [i for b in bl for i in B.from_asm_block(b)]
    except (repo.UnitTimeout, MemoryError):
        raise
    except Exception as e:
        return {"viol": {"clause": "spelling-raised", "text": text, "detail": "%s: %s" % (type(e).__name__, str(e)[:100])}}
    if len(got) != 2 or got[0] != ("PUSH", c):
        return {"viol": {"clause": "spelling-value", "text": text, "got": str(got), "want": c}}
    return {"viol": None}


def dispatch(state, unit):
    kind = unit[0]
    if kind in ("file", "doc"):
        return work_doc(state, unit)
    if kind == "block":
        return work_block(state, unit[1:])
    return work_spelling(state, unit[1:])


def setup(arg):
    repo.load()
    return None


def main(tier, seed, only=None):
    chk = report.Check("C15", "exploration", tier, seed)
    chk.cov["rule"] = ("(1) all shipped asm-JSON examples + grammar-generated documents (every item kind, optional "
                       "fields, nested .data, contracts without asm) x PUSH0 on/off through parse_asm(...).to_json(); "
                       "(2) blocks of a prefix tree over stack/arith/pseudo-push symbols through both plain renderings "
                       "and the plain parser; (3) ten spellings of each boundary constant; non-trivial = distinct "
                       "documents/blocks/spellings that contain at least one value-carrying item")
    units = []
    shipped = sorted(glob.glob(os.path.join(repo.REPO, "examples", "jsons-solc", "*.json_solc")))
    if tier == "quick":
        shipped = sorted(shipped, key=os.path.getsize)[:12]
    for f in shipped:
        for p0 in (True, False):
            units.append(("file", f, p0))
    gdocs = list(gen_docs())
    for d in gdocs:
        for p0 in (True, False):
            units.append(("doc", d, p0))
    alpha = [B.P(0), B.P(1), B.P(0xFF), B.P(0x100), B.P(E.MASK), B.I("DUP1"), B.I("SWAP1"), B.I("ADD"), B.I("POP"),
             B.I("MSTORE")] + B.A_PSEUDO + [B.I("ASSIGNIMMUTABLE", "a1"), B.I("JUMP"), B.I("STOP")]
    blocks = list(B.tree(alpha, 3 if tier == "quick" else 4, max_need=4))
    for b in blocks:
        for p0 in (True, False):
            units.append(("block", b, p0))
    consts = B.BOUNDARY + [0xA, 0x10, 0xABCDEF, 1 << 64, (1 << 160) - 1, 0xDEADBEEF, 99, 100, 0xFF00]
    nsp = 0
    for c in consts:
        for t in spellings(c):
            for p0 in (True, False):
                units.append(("spelling", c, t, p0))
                nsp += 1
    tot = {"ok": 0, "budget": 0, "items": 0}

    def on_result(_a, unit, status, value):
        chk.add("evaluations")
        if status != "ok":
            tot["budget"] += 1
            if status == "exc":
                chk.violation("harness-exc;%s" % unit[0], {"unit": str(unit)[:300], "detail": str(value)[-500:]})
            return
        v = value.get("viol")
        if v:
            v["unit_kind"] = unit[0]
            v["push0"] = unit[-1]
            if unit[0] == "file":
                v["file"] = unit[1]
            elif unit[0] == "doc":
                v["doc"] = unit[1]
            elif unit[0] == "block":
                v["block"] = B.to_text(unit[1])
            chk.violation(sig(v), v)
        else:
            tot["ok"] += 1
            tot["items"] += value.get("items", 0)

    tasks = [(None, ch) for ch in pool.chunks(units, max(50, len(units) // 48 + 1))]
    pool.run_tasks(tasks, dispatch, setup=setup, unit_timeout=120, on_result=on_result)
    chk.sample({"shipped": [os.path.basename(f) for f in shipped][:4], "generated_docs": len(gdocs),
                "blocks": len(blocks), "spellings": nsp, "example_spellings": list(spellings(255))})
    chk.cov.update({"documents": 2 * (len(shipped) + len(gdocs)), "blocks": 2 * len(blocks), "spellings": nsp,
                    "items_roundtripped": tot["items"], "skipped_budget": tot["budget"],
                    "distinct_nontrivial": tot["ok"]})
    return chk.finish(guards={"ok_units": tot["ok"], "items": tot["items"]})


def sig(v):
    import re
    d = re.sub(r"[0-9]+", "N", str(v.get("detail", "")))[:70]
    if v["clause"] in ("spelling-value", "spelling-raised"):
        t = v["text"].split()
        form = re.sub(r"[0-9a-fA-F]{2,}", "H", v["text"])
        return "%s;%s;push0=%s" % (v["clause"], form, v["push0"])
    return "%s;%s;push0=%s;%s" % (v["clause"], v.get("form", v["unit_kind"]), v["push0"], d)


def replay(path):
    w = json.load(open(path))
    res = {}

    def on_r(_a, unit, status, value):
        res["status"], res["value"] = status, value

    if w["unit_kind"] == "file":
        unit = ("file", w["file"], w["push0"])
    elif w["unit_kind"] == "doc":
        unit = ("doc", w["doc"], w["push0"])
    elif w["unit_kind"] == "block":
        from .c01 import parse_text
        unit = ("block", parse_text(w["block"]), w["push0"])
    else:
        unit = ("spelling", w["want"], w["text"], w["push0"])
    pool.run_tasks([(None, [unit])], dispatch, setup=setup, unit_timeout=120, on_result=on_r)
    v = res.get("value")
    print("replay:", res.get("status"), str(v)[:300])
    if res.get("status") == "ok" and v.get("viol"):
        print("VIOLATION property=C15 replay=%s" % path)
        return 1
    print("no violation on replay")
    return 0
