"""C17 -- instruction-set restrictions chosen by the user are honoured.

(A) blocks in which a zero arises (pushed, folded, rule result) x PUSH0 on/off x criteria through the per-block
    pipeline: with PUSH0 disabled no PUSH0 item is emitted unless the input had one; with PUSH0 enabled every zero
    push of the emitted block is spelled PUSH0; the sizes/gas the tool reports for the input and the output sub-blocks
    equal independent figures computed with the same spelling rule.
(B) documents with 2-3 contracts x every -c selection: the emitted json-asm equals the one obtained from a document
    that only contains that contract; statistics and log only mention its blocks; an unknown name is an error.
"""
import copy
import itertools
import json

from . import asm_ref, blocks as B, c15, docrun, docs, driver, evm_ref as E, families, pool, report, repo


def zero_family():
    Z = [B.P(0)]
    yield from ([B.P(0)], [B.P(0), B.P(0)], [B.P(0), B.I("DUP1")], [B.P(0), B.I("POP")], [B.P(0), B.I("ADD")],
                [B.P(0), B.I("MSTORE")], [B.P(0), B.P(0), B.I("MSTORE")], [B.P(0), B.I("DUP1"), B.I("MSTORE")],
                [B.P(0), B.I("SLOAD")], [B.P(0), B.I("DUP1"), B.I("SSTORE")], [B.P(0), B.P(0), B.I("REVERT")],
                [B.P(0), B.I("DUP1"), B.I("REVERT")], [B.P(0), B.I("MLOAD"), B.P(0), B.I("ADD")])
    # folded zeros
    for a in (1, 2, 0xFF, E.MASK):
        yield [B.P(a), B.P(a), B.I("SUB")]
        yield [B.P(a), B.P(a), B.I("XOR")]
        yield [B.P(a), B.P(a), B.I("SUB"), B.I("DUP1")]
        yield [B.P(a), B.I("ISZERO")]
        yield [B.P(a), B.P(0), B.I("MUL")]
        yield [B.P(0), B.P(a), B.I("DIV")]
        yield [B.P(a), B.P(a), B.I("LT")]
        yield [B.P(a), B.P(0), B.I("AND"), B.I("SWAP1")]
    yield [B.P(E.MASK), B.I("NOT")]
    yield [B.P(1), B.P(E.MASK), B.I("ADD")]
    # rule results
    for tail in ([], [B.I("SWAP1")], [B.I("DUP1")], [B.I("DUP2"), B.I("MSTORE")], [B.I("ADD")]):
        yield [B.I("DUP1"), B.I("SUB")] + tail
        yield [B.I("DUP1"), B.I("XOR")] + tail
        yield [B.P(0), B.I("MUL")] + tail
        yield [B.P(0), B.I("AND")] + tail
        yield [B.I("DUP1"), B.I("LT")] + tail
        yield [B.I("DUP1"), B.I("GT")] + tail
        yield [B.P(0), B.I("SWAP1"), B.I("DIV")] + tail
        yield [B.I("DUP1"), B.I("NOT"), B.I("AND")] + tail
        yield [B.P(1), B.I("ISZERO")] + tail
    # zeros next to non-zero pushes and inside longer code
    for b in B.tree([B.P(0), B.P(1), B.I("DUP1"), B.I("SWAP1"), B.I("ADD"), B.I("POP"), B.I("MSTORE"), B.I("SUB")], 4,
                    max_need=2):
        if any(i == ("PUSH", 0) for i in b):
            yield b


def crit_cfgs():
    out = []
    for p0 in ((), ("-push0",)):
        for crit in ((), ("-size",), ("-length",)):
            out.append(tuple(crit + p0 + ("-greedy",)))
    return out


def static_gas_ok(block):
    return not any(op in ("SLOAD", "SSTORE", "BALANCE", "EXTCODESIZE", "EXTCODEHASH", "EXTCODECOPY", "KECCAK256",
                          "EXP") for op, _ in block)


def text00(block):
    """The `-bl` text of a block with every zero push written with two hex digits (PUSH1 0x00), as disassemblers
    print it: the text parser keeps the operand spelling, so zero recognition sees "00" instead of "0"."""
    return " ".join("PUSH1 0x00" if i == ("PUSH", 0) else B.tok_text(i) for i in block)


def work_a(ctx, block):
    push0 = ctx.push0
    G = ctx.G
    out = {"viol": None, "emitted_zero_pushes": 0, "changed": False, "rows": 0}
    route = "json"
    if isinstance(block, tuple) and block and block[0] == "text00":
        route, block = "text00", block[1]
    with repo.quiet():
        if route == "text00":
            try:
                ab = driver.parse_one(text00(block))
            except ValueError:
                return out
        else:
            ab = driver.build_one(block)
        in_items = ab.to_json()
        try:
            nb, _log, rows = G.optimize_asm_block_asm_format(ab, ctx.params)
            eq, _r = G.compare_asm_block_asm_format(ab, nb, ctx.params)
        except (repo.UnitTimeout, MemoryError):
            raise
        except Exception as e:
            return {"viol": None, "raised": str(e)[:100], "emitted_zero_pushes": 0, "changed": False, "rows": 0}
        if not eq:
            nb = ab
        out_items = nb.to_json()
    out["changed"] = out_items != in_items
    names_in = [i["name"] for i in in_items]
    if route == "text00":
        names_in = [op for op, _ in block]  # what the input text says, not what the tool's reader made of it
    zero_spellings = set()
    for it in out_items:
        if it["name"] == "PUSH0":
            zero_spellings.add("PUSH0")
            if it.get("value") is not None:
                out["viol"] = {"clause": "PUSH0-with-value", "item": it}
        elif it["name"] == "PUSH" and int(it["value"], 16) == 0:
            zero_spellings.add("PUSH 0")
    out["emitted_zero_pushes"] = len(zero_spellings)
    if not push0:
        if "PUSH0" in zero_spellings and "PUSH0" not in names_in:
            out["viol"] = {"clause": "PUSH0-emitted-while-disabled"}
    else:
        if "PUSH 0" in zero_spellings:
            out["viol"] = {"clause": "zero-push-not-spelled-PUSH0", "spellings": sorted(zero_spellings)}
    # accounting of the statistics rows with the same spelling rule
    if out["viol"] is None:
        from .c01 import parse_text
        for row in rows:
            out["rows"] += 1
            try:
                prev = plain_to_block(row["previous_solution"])
            except Exception:
                continue
            exp_size = sum(asm_ref.item_bytes(i, push0) for i in B.to_json_items(prev))
            if int(row["initial_estimated_size"]) != exp_size:
                out["viol"] = {"clause": "initial-size-accounting", "reported": int(row["initial_estimated_size"]),
                               "independent": exp_size, "sub_block": row["previous_solution"]}
                break
            if static_gas_ok(prev):
                exp_gas = sum(asm_ref.static_gas(i, push0) for i in B.to_json_items(prev))
                if int(row["initial_estimated_gas"]) != exp_gas:
                    out["viol"] = {"clause": "initial-gas-accounting", "reported": int(row["initial_estimated_gas"]),
                                   "independent": exp_gas, "sub_block": row["previous_solution"]}
                    break
            if "solution_found" in row and isinstance(row.get("solution_found"), str):
                try:
                    sol = plain_to_block(row["solution_found"])
                except Exception:
                    continue
                exp_size = sum(asm_ref.item_bytes(i, push0) for i in B.to_json_items(sol))
                if int(row["optimized_estimated_size"]) != exp_size:
                    out["viol"] = {"clause": "optimized-size-accounting", "reported": int(row["optimized_estimated_size"]),
                                   "independent": exp_size, "solution": row["solution_found"]}
                    break
                if static_gas_ok(sol):
                    exp_gas = sum(asm_ref.static_gas(i, push0) for i in B.to_json_items(sol))
                    if int(row["optimized_estimated_gas"]) != exp_gas:
                        out["viol"] = {"clause": "optimized-gas-accounting", "reported": int(row["optimized_estimated_gas"]),
                                       "independent": exp_gas, "solution": row["solution_found"]}
                        break
    if out["viol"]:
        out["viol"].update({"block": B.to_text(block), "config": list(ctx.cfg), "route": route,
                            "emitted": B.to_text(docs.block_of_items(out_items))})
    return out


def plain_to_block(text):
    """Reader of AsmBytecode.to_plain() text: 'PUSH ff' (hex), 'PUSH0', 'PUSH [tag] 1', 'DUP1' ..."""
    toks = text.split()
    out = []
    i = 0
    while i < len(toks):
        t = toks[i]
        if t == "PUSH0":
            out.append(("PUSH", 0))
        elif t == "PUSH" and toks[i + 1] in ("[tag]", "data", "[$]", "#[$]"):
            out.append(("PUSH " + toks[i + 1], toks[i + 2]))
            i += 2
        elif t == "PUSH":
            out.append(("PUSH", int(toks[i + 1], 16)))
            i += 1
        elif t in ("PUSHLIB", "PUSHIMMUTABLE", "ASSIGNIMMUTABLE", "tag"):
            out.append((t, toks[i + 1]))
            i += 1
        else:
            out.append((t, None))
        i += 1
    return out


# ------------------------------------------------------------------------------------------------------------ (B)

def selection_docs():
    b1 = [B.P(0), B.I("DUP2"), B.I("ADD"), B.P(0x40), B.I("MSTORE"), B.P(0), B.I("DUP1"), B.I("RETURN")]
    b2 = [B.I("DUP1"), B.P(1), B.I("SWAP1"), B.I("POP"), B.I("SLOAD"), B.I("STOP")]
    b3 = [B.P(5), B.P(0), B.I("ADD"), B.I("DUP1"), B.I("SWAP1"), B.I("LOG1"), B.I("STOP")]
    ca = docs.make_contract([b1], [b2, b3])
    cb = docs.make_contract([b3], [b1])
    cc = docs.make_contract([b2, b1], [b3, b2])
    yield {"x.sol:Alpha": ca, "x.sol:Beta": cb}
    yield {"dir/x.sol:Alpha": ca, "y.sol:Beta": cb, "y.sol:Gamma": cc}
    yield {"x.sol:Alpha": ca, "x.sol:Iface": {}, "x.sol:Beta": cc}
    # names that are prefixes / suffixes / substrings of one another, and the same name in two files
    yield {"x.sol:Token": ca, "x.sol:MyToken": cb, "dir/y.sol:Token2": cc, "x.sol:Tok": cb}


def setup_b(cfg):
    repo.load()
    return {"cfg": cfg}


def work_b(state, unit):
    cfg = state["cfg"]
    contracts, sel = unit
    doc = docs.make_doc(copy.deepcopy(contracts))
    r = docrun.run_document(cfg, doc, name="sel", extra_args=("-c", sel))
    short = {k.split("/")[-1].split(":")[-1]: k for k in contracts}
    res = {"viol": None, "selected": sel, "error": r["exc"]}
    if sel not in short or not contracts[short[sel]]:
        # unknown (or assembly-less) selection: must be an error, not a silently written document
        if r["exc"] is None and r["out"] is not None:
            res["viol"] = {"clause": "unknown-selection-produced-output"}
        return res
    if r["exc"] or r["out"] is None:
        res["viol"] = {"clause": "selection-run-failed", "detail": r["exc"]}
        return res
    only = docs.make_doc({short[sel]: copy.deepcopy(contracts[short[sel]])})
    r2 = docrun.run_document(cfg, only, name="only", extra_args=("-c", sel))
    if r2["exc"] or r2["out"] is None:
        res["viol"] = {"clause": "single-contract-run-failed", "detail": r2["exc"]}
        return res
    d = c15.first_diff(r2["out"], r["out"])
    if d:
        res["viol"] = {"clause": "selection-output-differs-from-single-contract-run", "detail": d}
        return res
    for row in r["seqs"] + r["blocks"]:
        bid = row.get("block_id", "")
        if not bid.startswith(sel + "_"):
            res["viol"] = {"clause": "statistics-mention-other-contract", "block_id": bid}
            return res
    if isinstance(r["log"], dict):
        for k in r["log"]:
            if not k.startswith(sel + "_"):
                res["viol"] = {"clause": "log-mentions-other-contract", "key": k}
                return res
    res["rows"] = len(r["seqs"])
    return res


def main(tier, seed, only=None):
    chk = report.Check("C17", "exploration", tier, seed)
    chk.cov["rule"] = ("(A) zero-producing block family (pushed, folded, rule results, prefix tree with PUSH 0) x PUSH0 "
                       "on/off x criteria through optimize+compare: spelling of zero pushes in the emitted items and "
                       "independent recomputation of the reported sizes/gas; (B) 2-3 contract documents x every -c "
                       "selection (and an unknown name) against the single-contract run; non-trivial = blocks whose "
                       "emitted code contains a zero push")
    tot = {"a": 0, "zero_out": 0, "changed": 0, "rows": 0, "b": 0, "budget": 0}
    if not only or only == "a":
        fam = []
        seen = set()
        for b in zero_family():
            t = tuple(b)
            if t not in seen:
                seen.add(t)
                fam.append(b)
        if tier != "quick":
            fam += [b for b in families.rule_family(1)][::3]

        def on_a(cfg, block, status, value):
            chk.add("evaluations")
            if status != "ok":
                tot["budget"] += 1
                return
            tot["a"] += 1
            tot["rows"] += value["rows"]
            if value["emitted_zero_pushes"]:
                tot["zero_out"] += 1
            if value["changed"]:
                tot["changed"] += 1
            if value["viol"]:
                v = value["viol"]
                chk.violation("%s;push0=%s" % (v["clause"], "-push0" not in cfg), v)
            elif value["emitted_zero_pushes"] and tot["zero_out"] % 400 == 1:
                chk.sample({"block": B.to_text(block[1] if block and block[0] == "text00" else block),
                            "config": list(cfg)})

        cfgs = crit_cfgs()
        tasks = [(cfg, ch) for cfg in cfgs for ch in pool.chunks(fam, max(200, len(fam) // 8 + 1))]
        # text route (-bl inputs) with the two-digit spelling of zero; only with PUSH0 disabled, where the property
        # fixes the spelling and the price of every zero push whatever the input spelling was
        zfam = [("text00", b) for b in fam if any(i == ("PUSH", 0) for i in b)]
        tasks += [(cfg, ch) for cfg in cfgs if "-push0" in cfg for ch in pool.chunks(zfam, max(200, len(zfam) // 4 + 1))]
        chk.cov["text_route_blocks"] = len(zfam)
        pool.run_tasks(tasks, work_a, setup=driver.setup_ctx, unit_timeout=30, on_result=on_a)
        chk.cov["zero_family_blocks"] = len(fam)
    if not only or only == "b":
        def on_b(cfg, unit, status, value):
            chk.add("evaluations")
            if status != "ok":
                tot["budget"] += 1
                chk.violation("harness-%s" % status, {"unit": str(unit)[:200], "detail": str(value)[-300:]})
                return
            tot["b"] += 1
            if value["viol"]:
                v = value["viol"]
                v.update({"contracts": unit[0], "selection": unit[1], "config": list(cfg)})
                chk.violation("%s" % v["clause"], v)

        units = []
        for contracts in selection_docs():
            names = [k.split("/")[-1].split(":")[-1] for k in contracts]
            for sel in names + ["Nope"]:
                units.append((contracts, sel))
        cfgs_b = [("-greedy",)] if tier == "quick" else [("-greedy",), ("-greedy", "-storage"), ("-greedy", "-push0")]
        tasks = [(cfg, [u]) for cfg in cfgs_b for u in units]
        pool.run_tasks(tasks, work_b, setup=setup_b, unit_timeout=120, on_result=on_b)
        chk.sample({"part": "b", "selections": [u[1] for u in units]})
    chk.cov.update({"block_runs": tot["a"], "blocks_with_zero_push_emitted": tot["zero_out"],
                    "blocks_changed": tot["changed"], "statistics_rows_recomputed": tot["rows"],
                    "selection_runs": tot["b"], "skipped_budget": tot["budget"],
                    "distinct_nontrivial": tot["zero_out"] + tot["b"]})
    guards = {}
    if not only or only == "a":
        guards["zero_out"] = tot["zero_out"]
        guards["rows"] = tot["rows"]
    if not only or only == "b":
        guards["selection_runs"] = tot["b"]
    return chk.finish(guards=guards)


def replay(path):
    w = json.load(open(path))
    res = {}

    def on_r(cfg, unit, status, value):
        res["status"], res["value"] = status, value

    if "selection" in w:
        pool.run_tasks([(tuple(w["config"]), [(w["contracts"], w["selection"])])], work_b, setup=setup_b,
                       unit_timeout=120, on_result=on_r)
    else:
        from .c01 import parse_text
        blk = parse_text(w["block"])
        if w.get("route") == "text00":
            blk = ("text00", blk)
        pool.run_tasks([(tuple(w["config"]), [blk])], work_a, setup=driver.setup_ctx,
                       unit_timeout=60, on_result=on_r)
    v = res.get("value")
    print("replay:", res.get("status"), str(v and v.get("viol"))[:300])
    if res.get("status") != "ok" or v.get("viol"):
        print("VIOLATION property=C17 replay=%s" % path)
        return 1
    print("no violation on replay")
    return 0
