"""Line-coverage audit of the implementation under the checks (development aid, off by default).

With VERIF_COV=<dir> every harness process (parent and forked workers) records which lines of files under
$GASOL_REPO were executed (sys.monitoring, each line location disabled after its first hit, so the cost is
negligible) and dumps them to <dir>/<pid>.json when it ends.  tools/cov_report.py merges the dumps and lists, per
function of the anchor files, the lines no check reached: code no enumerated input reaches is code in which a change
cannot be noticed, so the list says where a family is missing.  Nothing here decides a property.
"""
import json
import os
import sys

OUT = os.environ.get("VERIF_COV")
_hits = set()
_on = False


def start(root):
    global _on
    if not OUT or _on or not hasattr(sys, "monitoring"):
        return
    mon = sys.monitoring
    try:
        mon.use_tool_id(mon.COVERAGE_ID, "verifcov")
    except ValueError:
        return
    root = os.path.realpath(root) + os.sep

    def line(code, lineno):
        fn = code.co_filename
        if fn.startswith(root):
            _hits.add((fn[len(root):], lineno))
        return mon.DISABLE

    mon.register_callback(mon.COVERAGE_ID, mon.events.LINE, line)
    mon.set_events(mon.COVERAGE_ID, mon.events.LINE)
    _on = True
    import atexit
    atexit.register(dump)


def dump():
    if not (_on and OUT):
        return
    os.makedirs(OUT, exist_ok=True)
    tmp = os.path.join(OUT, "%d.tmp" % os.getpid())
    with open(tmp, "w") as f:
        json.dump(sorted(_hits), f)
    os.replace(tmp, os.path.join(OUT, "%d.json" % os.getpid()))
