"""E6 -- explicit-state search over the reference stack machine of a specification.

State = (stack tuple (top first), frozenset of executed instruction ids).  Transitions = DUPk / SWAPk / POP and
every instruction of the specification whose operands are on top of the stack (either order if commutative) and
whose ordering constraints allow it now.  Uniform-cost search (Dijkstra) bounded by length and stack height.
State hashing is exact: equal stack and equal executed set have the same futures (for a fixed remaining length the
search keeps the best cost per (state, length) pair).
"""
import heapq

STORE_OPS = {"MSTORE", "MSTORE8", "SSTORE"}


class Machine:
    def __init__(self, sfs):
        self.sfs = sfs
        self.instrs = {ui["id"]: ui for ui in sfs["user_instrs"]}
        self.stores = {i for i, ui in self.instrs.items() if ui["disasm"] in STORE_OPS or ui.get("storage")}
        self.preds = {}
        self.succs = {}
        for a, b in sfs.get("dependencies", []):
            self.preds.setdefault(b, set()).add(a)
            self.succs.setdefault(a, set()).add(b)
        self.src = tuple(_norm(v) for v in sfs["src_ws"])
        self.tgt = tuple(_norm(v) for v in sfs["tgt_ws"])

    def weight(self, ident, criterion):
        if isinstance(criterion, dict):
            # explicit weights: ids of the specification, and the keys "DUP", "SWAP", "POP"
            if ident in criterion:
                return criterion[ident]
            return criterion["DUP" if ident.startswith("DUP") else "SWAP" if ident.startswith("SWAP") else "POP"]
        if criterion == "length":
            return 1
        if ident in self.instrs:
            ui = self.instrs[ident]
            return ui["gas"] if criterion == "gas" else ui["size"]
        if criterion == "size":
            return 1
        return 2 if ident == "POP" else 3

    def moves(self, stack, done, max_height):
        h = len(stack)
        if h:
            yield "POP", stack[1:], done
        for k in range(1, min(16, h) + 1):
            if h + 1 <= max_height:
                yield "DUP%d" % k, (stack[k - 1],) + stack, done
        for k in range(1, min(16, h - 1) + 1):
            s = list(stack)
            s[0], s[k] = s[k], s[0]
            yield "SWAP%d" % k, tuple(s), done
        for i, ui in self.instrs.items():
            ins = tuple(_norm(v) for v in ui["inpt_sk"])
            n = len(ins)
            if n > h:
                continue
            top = stack[:n]
            ok = top == ins or (ui.get("commutative") and n == 2 and top == ins[::-1])
            if not ok:
                continue
            if i in self.stores and i in done:
                continue  # exactly once
            # declared order: store predecessors must have run; nothing that must follow may have run already
            if any(p in self.stores and p not in done for p in self.preds.get(i, ())):
                continue
            if any(s in done for s in self.succs.get(i, ())):
                continue
            outs = tuple(_norm(v) for v in ui.get("outpt_sk", []))
            ns = outs + stack[n:]
            if len(ns) > max_height:
                continue
            yield i, ns, done | {i}

    def final(self, stack, done):
        return stack == self.tgt and self.stores <= done


def _norm(v):
    try:
        return str(int(v))
    except (TypeError, ValueError):
        return str(v)


def search(sfs, max_len, max_height, criterion="length", node_cap=300000):
    """Cheapest realizing sequence within the bounds.  Returns dict(found, cost, ids, states, transitions, capped)."""
    m = Machine(sfs)
    if len(m.src) > max_height or len(m.tgt) > max_height:
        # the bound does not even admit the initial / final stack
        return {"found": False, "cost": None, "ids": None, "states": 1, "transitions": 0, "capped": False}
    start = (m.src, frozenset())
    best = {(start, 0): 0}
    heap = [(0, 0, 0, start, None)]
    parent = {}
    counter = 0
    states = transitions = 0
    capped = False
    while heap:
        cost, length, _c, st, back = heapq.heappop(heap)
        if best.get((st, length), 1 << 60) < cost:
            continue
        states += 1
        if m.final(*st):
            ids = []
            key = (st, length)
            while key in parent:
                key, ident = parent[key]
                ids.append(ident)
            return {"found": True, "cost": cost, "ids": ids[::-1], "states": states, "transitions": transitions,
                    "capped": False}
        if length >= max_len:
            continue
        if states > node_cap:
            capped = True
            break
        for ident, ns, nd in m.moves(st[0], st[1], max_height):
            transitions += 1
            nst = (ns, nd)
            nc = cost + m.weight(ident, criterion)
            key = (nst, length + 1)
            # a state reached with fewer or equal steps at lower or equal cost dominates
            dominated = False
            for l2 in range(0, length + 2):
                b = best.get((nst, l2))
                if b is not None and b <= nc:
                    dominated = True
                    break
            if dominated:
                continue
            best[key] = nc
            parent[key] = ((st, length), ident)
            counter += 1
            heapq.heappush(heap, (nc, length + 1, counter, nst, None))
    return {"found": False, "cost": None, "ids": None, "states": states, "transitions": transitions, "capped": capped}


def shortest(sfs, max_len, max_height, node_cap=300000):
    return search(sfs, max_len, max_height, "length", node_cap)
