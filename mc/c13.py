"""C13 -- specification generation and greedy search are deterministic.

(1) Own the nondeterminism: the global name `set` is rebound, inside the harness process, to a subclass whose
    iteration order is served by a scheduler, in every module of the tool that builds sets.  For each input a first
    run records the iteration points; then every point is deviated (all permutations for sets of <= 3 elements,
    reversal / rotation / every adjacent transposition above), one point at a time (pairs of points in the thorough
    tier).  The complete result of processing the input (specifications with identifiers, sub-block list, emitted
    items, log, statistics) must be identical to the default-order run.
(2) Prove ownership: the same inputs are processed in fresh interpreter processes with different PYTHONHASHSEED
    values, scratch directories and working directories; the digests must all be equal to each other and to the
    in-process default-order digests.
"""
import hashlib
import itertools
import json
import os
import subprocess
import sys
import tempfile

from . import blocks as B
from . import c12, driver, families, pool, report, repo

SET_MODULES = ["sfs_generator.rbr_rule", "sfs_generator.asm_block", "smt_encoding.json_with_dependencies",
               "smt_encoding.instructions.instruction_dependencies",
               "smt_encoding.instructions.instruction_bounds_with_dependencies", "greedy.block_generation",
               "gasol_asm", "verification.sfs_verify", "sfs_generator.gasol_optimization", "sfs_generator.ir_block",
               "smt_encoding.count_sms_greedy"]


class Scheduler:
    def __init__(self):
        self.reset(None)

    def reset(self, plan):
        self.n = 0
        self.points = []
        self.plan = plan or {}

    def order(self, items):
        n = self.n
        self.n += 1
        f = sys._getframe(2)
        self.points.append((n, len(items), "%s:%d" % (os.path.basename(f.f_code.co_filename), f.f_lineno)))
        p = self.plan.get(n)
        if p is None:
            return items
        if len(p) != len(items):
            raise ReplayDivergence("iteration point %d has %d elements, the plan expects %d" % (n, len(items), len(p)))
        return [items[i] for i in p]


class ReplayDivergence(Exception):
    pass


SCHED = Scheduler()


class ControlledSet(set):
    """A set whose iteration order is decided by SCHED (everything else is the builtin behaviour)."""

    def __iter__(self):
        items = list(set.__iter__(self))
        if len(items) >= 2:
            items = SCHED.order(items)
        return iter(items)

    def _wrap(self, r):
        return ControlledSet(r) if isinstance(r, set) else r

    def union(self, *o):
        return ControlledSet(set.union(self, *o))

    def difference(self, *o):
        return ControlledSet(set.difference(self, *o))

    def intersection(self, *o):
        return ControlledSet(set.intersection(self, *o))

    def symmetric_difference(self, o):
        return ControlledSet(set.symmetric_difference(self, o))

    def copy(self):
        return ControlledSet(set.copy(self))

    def __or__(self, o):
        return self._wrap(set.__or__(self, o))

    def __and__(self, o):
        return self._wrap(set.__and__(self, o))

    def __sub__(self, o):
        return self._wrap(set.__sub__(self, o))

    def __xor__(self, o):
        return self._wrap(set.__xor__(self, o))

    __ror__ = __or__
    __rand__ = __and__

    def __reduce__(self):
        return (set, (list(set.__iter__(self)),))


def install():
    import importlib
    n = 0
    for m in SET_MODULES:
        try:
            mod = importlib.import_module(m)
        except Exception:
            continue
        mod.set = ControlledSet
        n += 1
    return n


def deviations(size, full):
    """Index permutations (non-identity) to try at an iteration point with `size` elements."""
    ident = tuple(range(size))
    out = []
    if size <= (4 if full else 3):
        out = [p for p in itertools.permutations(range(size)) if p != ident]
    else:
        out.append(tuple(reversed(ident)))
        out.append(ident[1:] + ident[:1])
        for i in range(size - 1):
            p = list(ident)
            p[i], p[i + 1] = p[i + 1], p[i]
            out.append(tuple(p))
        if full:
            for i, j in itertools.combinations(range(size), 2):
                p = list(ident)
                p[i], p[j] = p[j], p[i]
                if tuple(p) not in out:
                    out.append(tuple(p))
    return out


def inputs(tier):
    ins = [p[1] for p in c12.probes()]
    mem = list(families.mem_family(3))
    step = len(mem) // (60 if tier == "quick" else 300)
    ins += mem[::step]
    live = list(families.live_loads_family())
    ins += live[::4] if tier == "quick" else live
    ins += [[B.I("DUP2"), B.I("DUP2"), B.I("MSTORE"), B.P(32), B.I("ADD")] * 3,
            [B.P(1), B.P(2), B.I("SSTORE"), B.P(3), B.P(4), B.I("SSTORE"), B.P(2), B.I("SLOAD"), B.P(0), B.I("MSTORE"),
             B.P(32), B.P(0), B.I("KECCAK256"), B.P(5), B.I("SSTORE")]]
    return ins


def setup(cfg):
    ctx = driver.Ctx(cfg)
    ctx.n_installed = install()
    return ctx


def digest(ctx, block, plan=None):
    SCHED.reset(plan)
    r = c12.process(ctx, block)
    return hashlib.sha1(r.encode()).hexdigest(), list(SCHED.points), r


def work(ctx, unit):
    block, full, pairs = unit
    base, points, raw = digest(ctx, block)
    # replaying the default schedule must reproduce itself
    again, points2, raw2 = digest(ctx, block)
    if again != base:
        # the same input, the same options, the same iteration orders, twice in one process: a different result is
        # a violation of the first sentence of the property (the cause is state left behind by the first run)
        return {"viol": {"clause": "same-input-twice-differs", "site": "second run in the same process",
                         "plan": {}, "block": B.to_text(block), "config": list(ctx.cfg),
                         "diff": _first_diff(raw, raw2)},
                "points": len(points), "multi_points": 0, "runs": 2, "sites": [], "digest": base}
    if points2 != points:
        return {"broken": "default schedule does not reproduce itself (same result, different iteration points)"}
    runs = 0
    multi = [(n, size, site) for n, size, site in points if size >= 2]
    viol = None
    sites = sorted({site for _n, _s, site in multi})
    plans = []
    for n, size, site in multi:
        for p in deviations(size, full):
            plans.append(({n: p}, site))
    if pairs:
        for (n1, s1, site1), (n2, s2, site2) in itertools.combinations(multi, 2):
            for p1 in deviations(s1, False)[:2]:
                for p2 in deviations(s2, False)[:2]:
                    plans.append(({n1: p1, n2: p2}, site1 + "+" + site2))
    for plan, site in plans:
        runs += 1
        try:
            d, pts, r2 = digest(ctx, block, plan)
        except ReplayDivergence:
            # an earlier deviation changed which sets are iterated later: that is itself order-dependent behaviour,
            # but only matters if the result differs; rerun without strict sizes is not possible -> compare prefix
            continue
        if d != base:
            viol = {"clause": "iteration-order-dependent", "site": site, "plan": {str(k): list(v) for k, v in plan.items()},
                    "block": B.to_text(block), "config": list(ctx.cfg), "diff": _first_diff(raw, r2)}
            break
    return {"viol": viol, "points": len(points), "multi_points": len(multi), "runs": runs, "sites": sites,
            "digest": base}


def _first_diff(a, b):
    from .c15 import first_diff
    try:
        return first_diff(json.loads(a), json.loads(b))
    except Exception:
        return "results differ"


# --------------------------------------------------------------------------------------------- subprocess part

def emit(cfg, tier):
    """Executed in a fresh interpreter: print the digests of all inputs (no set control, real hash order)."""
    ctx = driver.Ctx(cfg)
    repo.enter_scratch("c13sub")
    out = []
    try:
        for blk in inputs(tier):
            try:
                with repo.cpu_alarm(60):
                    r = c12.process(ctx, blk)
                out.append(hashlib.sha1(r.encode()).hexdigest())
            except repo.UnitTimeout:
                out.append("timeout")
    finally:
        repo.leave_scratch()
    sys.__stdout__.write("DIGESTS " + json.dumps(out) + "\n")


def run_sub(cfg, tier, seed, workdir):
    env = dict(os.environ)
    env["PYTHONHASHSEED"] = str(seed)
    env["PYTHONPATH"] = report.VERIF
    env["VERIF_SCRATCH"] = workdir
    cmd = [sys.executable, "-m", "mc.c13", "--emit", tier] + list(cfg)
    p = subprocess.run(cmd, cwd=workdir, env=env, capture_output=True, text=True, timeout=1200)
    for line in p.stdout.splitlines():
        if line.startswith("DIGESTS "):
            return json.loads(line[8:])
    raise report.Broken("subprocess produced no digests (seed %s): %s" % (seed, p.stderr[-400:]))


def main(tier, seed, only=None):
    chk = report.Check("C13", "model_checking", tier, seed)
    chk.cov["rule"] = ("inputs = C12 probe menu + a slice of the 3-operation memory family + 2 long blocks; every set "
                       "iteration point in %d modules is deviated (all permutations for <=3 elements, reversal/rotation/"
                       "adjacent transpositions above; pairs of points in the thorough tier); plus fresh interpreters "
                       "with different PYTHONHASHSEED / scratch / cwd; non-trivial = schedules that deviate from the "
                       "default iteration order" % len(SET_MODULES))
    chk.assumptions = ["set literals and set comprehensions create builtin sets that the name rebinding cannot reach; "
                       "they are covered by part (2) only (finitely many hash seeds)",
                       "machine load is not controllable; the tool reads no clock except for statistics, which are "
                       "excluded from the comparison"]
    ins = inputs(tier)
    cfgs = [("-greedy",), ("-storage", "-greedy")] if tier == "quick" else \
        [("-greedy",), ("-storage", "-greedy"), ("-partition", "-greedy"), ("-size", "-greedy")]
    tot = {"inputs": 0, "points": 0, "multi": 0, "runs": 0, "budget": 0}
    sites = set()
    digests = {}

    def on_r(cfg, unit, status, value):
        chk.add("evaluations")
        if status != "ok":
            tot["budget"] += 1
            chk.violation("harness-%s" % status, {"block": B.to_text(unit[0]), "config": list(cfg), "detail": str(value)[-300:]})
            return
        if value.get("broken"):
            raise report.Broken(value["broken"])
        tot["inputs"] += 1
        tot["points"] += value["points"]
        tot["multi"] += value["multi_points"]
        tot["runs"] += value["runs"]
        sites.update(value["sites"])
        digests[(cfg, B.to_text(unit[0]))] = value["digest"]
        if value["viol"]:
            v = value["viol"]
            chk.violation("%s;%s" % (v["clause"], v["site"]), v)

    full = tier != "quick"
    tasks = [(cfg, ch) for cfg in cfgs for ch in pool.chunks([(b, full, full) for b in ins], 6)]
    if not only or only == "sets":
        pool.run_tasks(tasks, work, setup=setup, unit_timeout=600, on_result=on_r)
    # ---- fresh interpreters
    n_sub = 0
    if not only or only == "seeds":
        # fixed seeds only (a "random" hash seed could not be replayed); VERIF_SEED rotates two extra ones
        seeds = ([0, 1, 2, 3, 17, 12345, 1000 + seed] if tier == "quick"
                 else list(range(0, 24)) + [99991, 1000 + seed, 2000 + seed])
        import concurrent.futures as cf
        for cfg in cfgs[:1] if tier == "quick" else cfgs[:2]:
            ref = None
            with tempfile.TemporaryDirectory(prefix="c13_", dir=repo.SCRATCH_ROOT) as top:
                jobs = {}
                with cf.ThreadPoolExecutor(max_workers=8) as ex:
                    for k, s in enumerate(seeds):
                        wd = os.path.join(top, "w%d" % k, "deeper" * (k % 3))
                        os.makedirs(wd, exist_ok=True)
                        jobs[ex.submit(run_sub, cfg, tier, s, wd)] = s
                    for fut in cf.as_completed(jobs):
                        s = jobs[fut]
                        ds = fut.result()
                        n_sub += 1
                        chk.add("evaluations", len(ds))
                        if ref is None:
                            ref = (s, ds)
                        elif ds != ref[1]:
                            k = next(i for i, (a, b) in enumerate(zip(ds, ref[1])) if a != b)
                            chk.violation("hash-seed-dependent;input=%d" % k,
                                          {"clause": "hash-seed-dependent", "config": list(cfg), "seeds": [str(ref[0]), str(s)],
                                           "block": B.to_text(ins[k])})
                        if digests:
                            for k, blk in enumerate(ins):
                                d0 = digests.get((cfg, B.to_text(blk)))
                                if d0 is not None and ds[k] != d0 and ds[k] != "timeout":
                                    chk.violation("subprocess-differs-from-in-process;input=%d" % k,
                                                  {"clause": "subprocess-differs", "config": list(cfg), "seed": str(s),
                                                   "block": B.to_text(blk)})
                                    break
    chk.sample({"iteration_sites": sorted(sites)[:20]})
    chk.cov.update({"states": max(1, tot["runs"] + tot["inputs"]), "transitions": max(1, tot["multi"]),
                    "traces_validated_against_impl": tot["runs"], "inputs": tot["inputs"],
                    "iteration_points": tot["points"], "iteration_points_with_choice": tot["multi"],
                    "deviating_schedules_run": tot["runs"], "iteration_sites": len(sites),
                    "fresh_interpreter_runs": n_sub, "skipped_budget": tot["budget"],
                    "distinct_nontrivial": tot["runs"] + n_sub,
                    "explanation": "states = schedules executed (default + deviating), transitions = iteration points "
                                   "offering a choice; each schedule is executed on the real implementation"})
    guards = {}
    if not only or only == "sets":
        guards["deviating_schedules_run"] = tot["runs"]
        guards["iteration_sites"] = len(sites)
    if not only or only == "seeds":
        guards["fresh_interpreter_runs"] = n_sub
    return chk.finish(guards=guards)


def replay(path):
    w = json.load(open(path))
    from .c01 import parse_text
    res = {}

    def on_r(cfg, unit, status, value):
        res["status"], res["value"] = status, value

    pool.run_tasks([(tuple(w["config"]), [(parse_text(w["block"]), True, False)])], work, setup=setup,
                   unit_timeout=600, on_result=on_r)
    v = res.get("value")
    print("replay:", res.get("status"), str(v and v.get("viol"))[:300])
    if res.get("status") == "ok" and v.get("viol"):
        print("VIOLATION property=C13 replay=%s" % path)
        return 1
    print("no violation on replay (hash-seed witnesses need the subprocess part: ./check C13 --only seeds)")
    return 0


if __name__ == "__main__":
    if len(sys.argv) > 2 and sys.argv[1] == "--emit":
        emit(tuple(sys.argv[3:]), sys.argv[2])
