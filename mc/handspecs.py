"""Hand-enumerated well-formed specifications in the tool's JSON format (C04 b, c; also C16).

A specification is built from a list of abstract instructions added one at a time; the inputs of each are chosen
among the variables available so far (source stack + earlier outputs), so the term DAG is acyclic and every
variable is defined.  Dependencies are subsets of the forward pairs between memory (resp. storage) operations in
creation order in which at least one end is a store -- always consistent with the creation order, hence acyclic and
compatible with data flow.
"""
import itertools

KINDS = {
    # name: (disasm, n_inputs, has_output, commutative, is_store, location)
    "ADD": ("ADD", 2, True, True, False, None),
    "SUB": ("SUB", 2, True, False, False, None),
    "ISZERO": ("ISZERO", 1, True, False, False, None),
    "PUSH": ("PUSH", 0, True, False, False, None),
    "PUSHBIG": ("PUSH", 0, True, False, False, None),
    "ADDRESS": ("ADDRESS", 0, True, False, False, None),
    "MLOAD": ("MLOAD", 1, True, False, False, "memory"),
    "SLOAD": ("SLOAD", 1, True, False, False, "storage"),
    "KECCAK256": ("KECCAK256", 2, True, False, False, "memory"),
    "MSTORE": ("MSTORE", 2, False, False, True, "memory"),
    "SSTORE": ("SSTORE", 2, False, False, True, "storage"),
}
OPCODE_HEX = {"ADD": "01", "SUB": "03", "ISZERO": "15", "PUSH": "60", "ADDRESS": "30", "MLOAD": "51", "SLOAD": "54",
              "KECCAK256": "20", "MSTORE": "52", "SSTORE": "55"}
GAS = {"ADD": 3, "SUB": 3, "ISZERO": 3, "PUSH": 3, "ADDRESS": 2, "MLOAD": 3, "SLOAD": 700, "KECCAK256": 30,
       "MSTORE": 3, "SSTORE": 5000}


def build(n_src, instr_list, tgt, mem_deps=(), sto_deps=()):
    """instr_list: [(kind, inputs, output or None, value or None)].  Returns the SFS dict."""
    src = ["s(%d)" % i for i in range(n_src)]
    counters = {}
    uis = []
    ids = []
    n_mem = n_sto = 0
    for kind, inputs, out, value in instr_list:
        disasm, _n, _has, comm, is_store, loc = KINDS[kind]
        c = counters.get(disasm, 0)
        counters[disasm] = c + 1
        iid = "%s_%d" % (disasm, c)
        ids.append(iid)
        ui = {"id": iid, "opcode": OPCODE_HEX[disasm], "disasm": disasm, "inpt_sk": list(inputs),
              "outpt_sk": [out] if out else [], "push": disasm == "PUSH", "gas": GAS[disasm],
              "commutative": comm, "storage": is_store, "size": 1}
        if disasm == "PUSH":
            ui["value"] = [value]
            ui["size"] = 2 if value < 256 else 33
        if disasm == "MSTORE":
            ui["mem_var"] = ["mem%d" % n_mem]
            n_mem += 1
        if disasm == "SSTORE":
            ui["sto_var"] = ["sto%d" % n_sto]
            n_sto += 1
        uis.append(ui)
    vars_ = list(src) + [ui["outpt_sk"][0] for ui in uis if ui["outpt_sk"]]
    md = [[ids[a], ids[b]] for a, b in mem_deps]
    sd = [[ids[a], ids[b]] for a, b in sto_deps]
    n = len(uis) + len(tgt) + n_src + 4
    return {"init_progr_len": n, "max_progr_len": n, "max_sk_sz": n_src + len(uis) + len(tgt) + 2, "vars": vars_,
            "src_ws": src, "tgt_ws": list(tgt), "user_instrs": uis, "current_cost": sum(u["gas"] for u in uis),
            "storage_dependences": sd, "memory_dependences": md, "dependencies": md + sd, "is_revert": False,
            "rules_applied": False, "rules": [], "original_instrs": "", "min_length_instrs": 0,
            "min_length_bounds": 0, "min_length": 0}


def _dep_subsets(instr_list, loc, cap):
    idx = [i for i, (k, _i, _o, _v) in enumerate(instr_list) if KINDS[k][5] == loc]
    pairs = [(a, b) for a, b in itertools.combinations(idx, 2)
             if KINDS[instr_list[a][0]][4] or KINDS[instr_list[b][0]][4]]
    # a load must not be ordered before a store that produces... (data flow is forward by construction)
    out = []
    for r in range(len(pairs) + 1):
        for sub in itertools.combinations(pairs, r):
            out.append(sub)
            if len(out) >= cap:
                return out
    return out


def hand_specs(level=1):
    kinds1 = ["ADD", "SUB", "ISZERO", "PUSH", "PUSHBIG", "MLOAD", "MSTORE", "SSTORE", "KECCAK256", "SLOAD"]
    max_instr = 2 if level == 1 else 3
    max_src = 2
    max_tgt = 2
    for n_src in range(0, max_src + 1):
        src = ["s(%d)" % i for i in range(n_src)]
        for n_ins in range(1, max_instr + 1):
            for kinds in itertools.product(kinds1, repeat=n_ins):
                if level == 1 and n_ins == 2 and kinds[0] in ("SLOAD",) and kinds[1] in ("SLOAD",):
                    continue
                yield from _wire(n_src, src, kinds, max_tgt, level)


def _wire(n_src, src, kinds, max_tgt, level):
    """All operand wirings for the given kind sequence, all target stacks, all dependency subsets."""

    def rec(i, avail, acc):
        if i == len(kinds):
            yield list(acc)
            return
        k = kinds[i]
        disasm, n_in, has_out, _c, _s, _l = KINDS[k]
        out = "s(%d)" % (10 + i) if has_out else None
        value = 5 if k == "PUSH" else (1 << 200) + 7 if k == "PUSHBIG" else None
        if n_in > len(avail) and n_in > 0 and not avail:
            return
        for inputs in itertools.product(avail, repeat=n_in):
            acc.append((k, inputs, out, value))
            yield from rec(i + 1, avail + ([out] if out else []), acc)
            acc.pop()

    for instr_list in rec(0, list(src), []):
        outs = [o for (_k, _i, o, _v) in instr_list if o]
        used = {x for (_k, ins, _o, _v) in instr_list for x in ins}
        avail = list(src) + outs
        for n_t in range(0, max_tgt + 1):
            for tgt in itertools.product(avail, repeat=n_t):
                # every output must be used (by an instruction or the target), as in front-end specifications
                if any(o not in used and o not in tgt for o in outs):
                    continue
                for md in _dep_subsets(instr_list, "memory", 4 if level == 1 else 8):
                    for sd in _dep_subsets(instr_list, "storage", 2 if level == 1 else 4):
                        yield build(n_src, instr_list, tgt, md, sd)


def deep_specs(level=1):
    """Operands deep in the stack: 14 <= n_src <= 19, one or two operations touching depth d, targets that keep,
    permute or duplicate deep elements."""
    depths = range(14, 20) if level >= 2 else (15, 16, 17, 18)
    for n_src in depths:
        src = ["s(%d)" % i for i in range(n_src)]
        ds = sorted({0, 1, n_src - 1, n_src - 2, 14, 15, 16} & set(range(n_src)))
        for d, e in itertools.product(ds, repeat=2):
            for kind in ("ADD", "SUB"):
                il = [(kind, (src[d], src[e]), "s(100)", None)]
                # result on top, everything else kept
                yield build(n_src, il, ["s(100)"] + src)
                # result replaces the deepest element
                yield build(n_src, il, src[:-1] + ["s(100)"])
                # result on top, consumed operands removed
                rest = [s for s in src if s not in (src[d], src[e])]
                yield build(n_src, il, ["s(100)"] + rest)
            il = [("MSTORE", (src[d], src[e]), None, None)]
            yield build(n_src, il, src)
            rest = [s for s in src if s not in (src[d], src[e])]
            yield build(n_src, il, rest)
        for d in ds:
            # pure permutations / duplications reaching deep elements
            t = list(src)
            t[0], t[d] = t[d], t[0]
            yield build(n_src, [], t)
            yield build(n_src, [], [src[d]] + src)
            yield build(n_src, [], src[:d] + src[d + 1:])
            il = [("ISZERO", (src[d],), "s(100)", None)]
            yield build(n_src, il, src[:d] + ["s(100)"] + src[d + 1:])
