"""C08 -- optimization never makes a block costlier in the chosen criterion; printed totals are sums.

(A) blocks x criteria x split modes through optimize + compare + keep-or-revert: independent cost of the emitted block
    (bytes from libevmasm's rule, instruction count, metered gas of a reference-EVM run on every state) must not
    exceed the input's in the chosen criterion, and a changed block must improve by the stated rule.
(B) multi-block contracts: the six printed totals equal the sums of the totals printed when each block is processed
    as its own contract, and the size/length totals equal independent figures.
"""
import json

from . import asm_ref, blocks as B, docrun, docs, driver, evm_ref as E, families, pool, report, repo


def crit_of(cfg):
    return "size" if "-size" in cfg else "length" if "-length" in cfg else "gas"


def measures(block, push0, states, meter=True):
    items = B.to_json_items(B.strip_markers(block))
    size = sum(asm_ref.item_bytes(i, push0) for i in items)
    length = len(items)
    E.PUSH0_AVAILABLE[0] = push0
    gas = []
    for st in states:
        try:
            gas.append(E.run(block, st, gas_meter=meter).gas)
        except (E.OOG, E.Underflow):
            gas.append(None)
    return size, length, gas


def cmp_vec(a, b):
    """(no_worse, strictly_better, equal) of b relative to a, pointwise over the states both ran on."""
    pairs = [(x, y) for x, y in zip(a, b) if x is not None and y is not None]
    if not pairs:
        # no state of the domain can run the input block at all (e.g. an environment value used as a memory
        # address): there is no execution whose gas could get worse
        return True, True, False
    no_worse = all(y <= x for x, y in pairs)
    better = no_worse and any(y < x for x, y in pairs)
    equal = all(y == x for x, y in pairs)
    return no_worse, better, equal


def judge(block, out, cfg, push0):
    clause, info = judge_with(block, out, cfg, push0, True)
    if clause:
        # would the verdict stand if every slot/address were already warm?  If not, the only regression is a cold
        # surcharge that moved from a removed access to a later access of the same slot (aliasing states only)
        c2, _ = judge_with(block, out, cfg, push0, "warm")
        info["cause"] = "cold-access-moved" if c2 is None else "other"
    return clause, info


def judge_with(block, out, cfg, push0, meter):
    states = B.states_for(block)
    s0, l0, g0 = measures(block, push0, states, meter)
    s1, l1, g1 = measures(out, push0, states, meter)
    crit = crit_of(cfg)
    g_nw, g_b, g_eq = cmp_vec(g0, g1)
    rel = {"size": (s1 <= s0, s1 < s0, s1 == s0), "length": (l1 <= l0, l1 < l0, l1 == l0), "gas": (g_nw, g_b, g_eq)}
    info = {"criterion": crit, "size": [s0, s1], "length": [l0, l1]}
    if not rel[crit][0]:
        if crit == "gas":
            k = next(i for i, (x, y) in enumerate(zip(g0, g1)) if x is not None and y is not None and y > x)
            info["state"] = states[k].key() if k < len(states) else "static part"
            info["gas"] = [g0[k], g1[k]]
        return "costlier-in-criterion", info
    if rel[crit][1]:
        return None, info
    # equal in the criterion: no worse in the others, one strictly better
    others = [c for c in ("gas", "size", "length") if c != crit]
    if all(rel[c][0] for c in others) and any(rel[c][1] for c in others):
        return None, info
    info["others"] = {c: {"no_worse": rel[c][0], "better": rel[c][1]} for c in others}
    return "changed-without-improvement", info


def work_a(ctx, block):
    r = driver.run_block(ctx, block)
    res = {"changed": r["changed"], "viol": None, "raised": bool(r["raised"])}
    if r["changed"]:
        clause, info = judge(block, r["out"], ctx.cfg, ctx.push0)
        if clause:
            info.update({"clause": clause, "block": B.to_text(block), "emitted": B.to_text(r["out"]),
                         "config": list(ctx.cfg)})
            res["viol"] = info
    return res


def cfgs_a(tier):
    out = []
    for crit in ((), ("-size",), ("-length",)):
        for split in ((), ("-storage",), ("-partition",)):
            if tier == "quick" and split and crit:
                continue
            out.append(tuple(crit + split + ("-greedy",)))
    return out


# ------------------------------------------------------------------------------------------------------------ (B)

def tagged(blocks):
    out = []
    for i, b in enumerate(blocks):
        out.append([("tag", str(100 + i)), ("JUMPDEST", None)] + list(b))
    return out


def totals_doc(blocks):
    c = {"asm": {".code": [], ".data": {"0": {".auxdata": "aa", ".code": docs.code_from_blocks(blocks, tags=False)}}}}
    return docs.make_doc({"t.sol:T": c})


def setup_b(cfg):
    repo.load()
    return {"cfg": cfg}


KEYS = ["initial_gas", "optimized_gas", "initial_size", "optimized_size", "initial_instrs", "final_instrs"]


def work_b(state, blocks):
    cfg = state["cfg"]
    push0 = "-push0" not in cfg
    tb = tagged(blocks)
    whole = docrun.run_document(cfg, totals_doc(tb), name="whole")
    if whole["exc"] or len(whole["totals"]) != 6:
        return {"viol": {"clause": "totals-run-failed", "detail": str(whole["exc"]), "totals": whole["totals"]}}
    sums = {k: 0 for k in KEYS}
    for i, b in enumerate(tb):
        one = docrun.run_document(cfg, totals_doc([b]), name="one")
        if one["exc"] or len(one["totals"]) != 6:
            return {"viol": {"clause": "totals-run-failed", "detail": str(one["exc"]), "block": B.to_text(b)}}
        for k in KEYS:
            sums[k] += one["totals"][k]
    for k in KEYS:
        if sums[k] != whole["totals"][k]:
            return {"viol": {"clause": "total-not-additive", "key": k, "whole": whole["totals"][k], "sum": sums[k]}}
    # independent figures for size and length
    in_items = [it for b in tb for it in B.to_json_items(b)]
    exp_size = sum(asm_ref.item_bytes(i, push0) for i in in_items)
    exp_len = sum(1 for i in in_items if i["name"] != "tag")
    if whole["totals"]["initial_size"] != exp_size:
        return {"viol": {"clause": "initial-size-total", "printed": whole["totals"]["initial_size"], "independent": exp_size}}
    if whole["totals"]["initial_instrs"] != exp_len:
        return {"viol": {"clause": "initial-length-total", "printed": whole["totals"]["initial_instrs"], "independent": exp_len}}
    out_items = [it for _p, items in docs.code_streams(whole["out"]) for it in items]
    exp_size = sum(asm_ref.item_bytes(i, push0) for i in out_items)
    exp_len = sum(1 for i in out_items if i["name"] != "tag")
    if whole["totals"]["optimized_size"] != exp_size:
        return {"viol": {"clause": "optimized-size-total", "printed": whole["totals"]["optimized_size"], "independent": exp_size}}
    if whole["totals"]["final_instrs"] != exp_len:
        return {"viol": {"clause": "final-length-total", "printed": whole["totals"]["final_instrs"], "independent": exp_len}}
    return {"viol": None, "totals": whole["totals"]}


def main(tier, seed, only=None):
    chk = report.Check("C08", "exploration", tier, seed)
    chk.cov["rule"] = ("(A) prefix trees and rule/memory families x {gas,size,length} x {no split,-storage,-partition} "
                       "through the per-block pipeline; every emitted block that differs from its input is priced "
                       "independently (bytes, count, metered gas on every state of D(need)); (B) contracts of 8 blocks: "
                       "printed totals vs sums of single-block runs and vs independent figures; non-trivial = blocks "
                       "the optimizer changed")
    tot = {"runs": 0, "changed": 0, "budget": 0, "b": 0}
    if not only or only == "a":
        if tier == "quick":
            sets = [("reuse-family", list(reuse_family())), ("vocabulary-family", families.vocabulary_family()),
                    ("tree(CORE,3)", list(B.tree(B.CORE, 3))), ("tree(MIXED,3)", list(B.tree(B.MIXED, 3))),
                    ("rule-family(1)/4", list(families.rule_family(1))[::4]),
                    ("mem-family(2)/2", list(families.mem_family(2))[::2])]
        else:
            sets = [("reuse-family", list(reuse_family())), ("vocabulary-family", families.vocabulary_family()),
                    ("tree(CORE,4)", list(B.tree(B.CORE, 4))), ("tree(MIXED,4)", list(B.tree(B.MIXED, 4))),
                    ("rule-family(1)", list(families.rule_family(1))), ("mem-family(2)", list(families.mem_family(2)))]

        def on_a(cfg, block, status, value):
            chk.add("evaluations")
            if status != "ok":
                tot["budget"] += 1
                return
            tot["runs"] += 1
            if value["changed"]:
                tot["changed"] += 1
                if tot["changed"] % 2503 == 1 and not value["viol"]:
                    chk.sample({"block": B.to_text(block), "config": list(cfg)})
            if value["viol"]:
                v = value["viol"]
                ops = sorted({op for op, _ in block if not (op.startswith("DUP") or op.startswith("SWAP")
                                                            or op in ("POP", "PUSH"))})
                chk.violation("%s;%s;cause=%s;ops=[%s]" % (v["clause"], v["criterion"], v.get("cause", "other"),
                                                          ",".join(ops)), v)

        cs = cfgs_a(tier)
        # candidate selection among original / greedy / solver (stand-in solver, see mc/standin.py)
        smt_cs = [("-ub-greedy",), ("-ub-greedy", "-size")] if tier == "quick" else \
            [(), ("-ub-greedy",), ("-ub-greedy", "-size"), ("-ub-greedy", "-length"), ("-size",)]
        info = {}
        for name, units in sets:
            info[name] = len(units)
            tasks = [(cfg, ch) for cfg in cs for ch in pool.chunks(units, max(300, len(units) // 16 + 1))]
            if name.startswith("tree(CORE"):
                # thorough: the full depth-4 tree under every solver option set is ~1 h on its own; two sets run on
                # it, the others on its depth-3 sub-tree
                for cfg in smt_cs:
                    us = units if (tier == "quick" or cfg in smt_cs[:2]) else [b for b in units if len(b) <= 3]
                    tasks += [(cfg, ch) for ch in pool.chunks(us, max(300, len(us) // 16 + 1))]
            pool.run_tasks(tasks, work_a, setup=driver.setup_ctx, unit_timeout=30, on_result=on_a)
        chk.cov["sets"] = info
        chk.cov["configs"] = [list(c) for c in cs] + [list(c) for c in smt_cs]
    if not only or only == "c":
        def on_c(cfg, unit, status, value):
            chk.add("evaluations")
            if status != "ok":
                tot["budget"] += 1
                chk.violation("harness-%s" % status, {"detail": str(value)[-300:], "config": list(cfg)})
                return
            tot["priced"] = tot.get("priced", 0) + 1
            if value["viol"]:
                v = value["viol"]
                chk.violation("%s;%s" % (v["clause"], v["opcode"]), v)

        vu = vocabulary_units()
        pool.run_tasks([(cfg, vu) for cfg in (("-greedy",), ("-push0", "-greedy"))], work_price, setup=driver.setup_ctx,
                       unit_timeout=30, on_result=on_c)
        chk.cov["opcodes_priced"] = len(vu)
    if not only or only == "b":
        base = list(B.tree(B.CORE8 + [B.I("SSTORE"), B.I("SLOAD"), B.I("STOP")], 3, max_need=3))
        step = 8
        groups = [base[i:i + step] for i in range(0, len(base) - step, step)]
        if tier == "quick":
            groups = groups[::6]
        cs_b = [("-greedy",), ("-size", "-greedy")] if tier == "quick" else \
            [("-greedy",), ("-size", "-greedy"), ("-length", "-greedy"), ("-push0", "-greedy"), ("-storage", "-greedy")]

        def on_b(cfg, unit, status, value):
            chk.add("evaluations")
            if status != "ok":
                tot["budget"] += 1
                chk.violation("harness-%s" % status, {"detail": str(value)[-300:], "config": list(cfg)})
                return
            tot["b"] += 1
            if value["viol"]:
                v = value["viol"]
                v.update({"blocks": [B.to_text(b) for b in unit], "config": list(cfg), "criterion": crit_of(cfg)})
                chk.violation("%s;%s" % (v["clause"], v.get("key", "")), v)

        tasks = [(cfg, ch) for cfg in cs_b for ch in pool.chunks(groups, max(2, len(groups) // 16 + 1))]
        pool.run_tasks(tasks, work_b, setup=setup_b, unit_timeout=300, on_result=on_b)
        chk.cov["total_groups"] = len(groups)
    chk.cov.update({"block_runs": tot["runs"], "blocks_changed": tot["changed"], "totals_contracts": tot["b"],
                    "skipped_budget": tot["budget"], "distinct_nontrivial": tot["changed"] + tot["b"]})
    if not chk.cov["samples"]:
        chk.sample({"note": "see sets"})
    guards = {}
    if not only or only == "a":
        guards["changed"] = tot["changed"]
    if not only or only == "b":
        guards["totals_contracts"] = tot["b"]
    return chk.finish(guards=guards)


def replay(path):
    w = json.load(open(path))
    from .c01 import parse_text
    res = {}

    def on_r(cfg, unit, status, value):
        res["status"], res["value"] = status, value

    if "blocks" in w:
        pool.run_tasks([(tuple(w["config"]), [[parse_text(t) for t in w["blocks"]]])], work_b, setup=setup_b,
                       unit_timeout=300, on_result=on_r)
    else:
        pool.run_tasks([(tuple(w["config"]), [parse_text(w["block"])])], work_a, setup=driver.setup_ctx,
                       unit_timeout=60, on_result=on_r)
    v = res.get("value")
    print("replay:", res.get("status"), str(v and v.get("viol"))[:300])
    if res.get("status") != "ok" or v.get("viol"):
        print("VIOLATION property=C08 replay=%s" % path)
        return 1
    print("no violation on replay")
    return 0


# ------------------------------------------------------------------------------------------------------------ (C)

DYNAMIC = {"EXP", "KECCAK256", "SHA3", "SLOAD", "SSTORE", "BALANCE", "EXTCODESIZE", "EXTCODEHASH", "EXTCODECOPY",
           "CALL", "CALLCODE", "DELEGATECALL", "STATICCALL", "CREATE", "CREATE2", "SELFDESTRUCT", "LOG0", "LOG1",
           "LOG2", "LOG3", "LOG4", "CALLDATACOPY", "CODECOPY", "RETURNDATACOPY", "ASSIGNIMMUTABLE"}


def vocabulary_units():
    """One block per opcode of the vocabulary (operands pushed first), plus reuse forms for value-producing ones."""
    out = []
    for name in sorted(E.ARITY):
        if name in ("tag", "JUMPDEST") or name.startswith(("DUP", "SWAP")) and name not in ("DUP1", "DUP16", "SWAP1", "SWAP16"):
            continue
        pops, pushes = E.ARITY[name]
        arg = {"PUSH": 1, "PUSH [tag]": "1", "PUSH data": "a1", "PUSH [$]": "0", "PUSH #[$]": "0", "PUSHLIB": "l1",
               "PUSHIMMUTABLE": "a1", "ASSIGNIMMUTABLE": "a1"}.get(name)
        out.append(("price", name, [B.P(1)] * pops + [(name, arg)]))
    for v in (0, 1, 0xFF, 0x100, 0xFFFFFF, E.MASK):
        out.append(("price", "PUSH", [B.P(v)]))
    return out


def reuse_family():
    """Value-producing instructions whose result is used two or three times (DUP versus recomputation)."""
    zero = ["ADDRESS", "ORIGIN", "CALLER", "CALLVALUE", "CALLDATASIZE", "CODESIZE", "GASPRICE", "RETURNDATASIZE",
            "COINBASE", "TIMESTAMP", "NUMBER", "DIFFICULTY", "GASLIMIT", "CHAINID", "SELFBALANCE", "BASEFEE",
            "PUSHSIZE", "PUSHDEPLOYADDRESS"]
    for z in zero:
        i = B.I(z)
        yield [i, B.I("DUP1"), B.I("ADD")]
        yield [i, i, B.I("ADD")]
        yield [i, B.I("DUP1"), B.I("DUP1"), B.I("ADD"), B.I("ADD")]
        yield [i, B.I("DUP1"), B.I("MSTORE")]
        yield [i, B.I("SWAP1"), i, B.I("ADD"), B.I("ADD")]
    # two independent trade-offs in one block (one better in gas, one better in size): ties in one criterion that
    # move the other criteria in opposite directions
    for z in ("SELFBALANCE", "ADDRESS", "CALLER", "PUSHSIZE"):
        for v in (0x1234, 0xFF, (1 << 200) + 1, 0):
            i = B.I(z)
            yield [i, B.I("DUP1"), B.P(v), B.P(v)]
            yield [i, i, B.P(v), B.I("DUP1")]
            yield [i, B.I("DUP1"), B.P(v), B.P(v), B.I("ADD"), B.I("ADD"), B.I("ADD")]
            yield [B.P(v), B.P(v), i, B.I("DUP1"), B.I("MSTORE"), B.I("MSTORE")]
    for v in (0, 1, 0xFF, 0xFFFF, 0xFFFFFFFF, E.MASK):
        yield [B.P(v), B.I("DUP1"), B.I("ADD")]
        yield [B.P(v), B.P(v), B.I("ADD")]
        yield [B.P(v), B.I("DUP1"), B.I("DUP1"), B.I("ADD"), B.I("ADD")]
    for u in ("ISZERO", "NOT", "CALLDATALOAD", "MLOAD", "SLOAD", "BALANCE", "EXTCODESIZE", "BLOCKHASH"):
        yield [B.I("DUP1"), B.I(u), B.I("SWAP1"), B.I(u), B.I("ADD")]
        yield [B.I(u), B.I("DUP1"), B.I("ADD")]
    for b2 in ("ADD", "MUL", "SUB", "DIV", "SIGNEXTEND", "EXP", "BYTE", "SHL", "SAR"):
        yield [B.I("DUP2"), B.I("DUP2"), B.I(b2), B.I("SWAP2"), B.I("SWAP1"), B.I(b2), B.I("ADD")]
        yield [B.I(b2), B.I("DUP1"), B.I("MUL")]
    for t in ("PUSH [tag]", "PUSH data", "PUSHIMMUTABLE", "PUSHLIB", "PUSH [$]", "PUSH #[$]"):
        i = B.I(t, "1" if t == "PUSH [tag]" else "a1" if t != "PUSHLIB" else "l1")
        yield [i, B.I("DUP1"), B.I("ADD")]
        yield [i, i, B.I("ADD")]


def work_price(ctx, unit):
    """The tool's own cost functions on a one-opcode block against the independent table."""
    _kind, name, block = unit
    push0 = ctx.push0
    with repo.quiet():
        ab = driver.build_one(block)
        size = ab.bytes_required
        gas = ab.gas_spent
        length = ab.length
    items = B.to_json_items(block)
    exp_size = sum(asm_ref.item_bytes(i, push0) for i in items)
    viol = None
    if size != exp_size:
        viol = {"clause": "size-table", "opcode": name, "tool": size, "independent": exp_size}
    elif length != len(block):
        viol = {"clause": "length-count", "opcode": name, "tool": length, "independent": len(block)}
    elif name not in DYNAMIC:
        exp_gas = sum(asm_ref.static_gas(i, push0) for i in items)
        if gas != exp_gas:
            viol = {"clause": "gas-table", "opcode": name, "tool": gas, "independent": exp_gas}
    if viol:
        viol.update({"block": B.to_text(block), "config": list(ctx.cfg), "criterion": "table"})
    return {"viol": viol}
