"""E5 -- finite-domain model enumerator for the SMT-LIB text the tool emits (no solver involved).

The emitted problem is the unrolling of a stack machine: t_j (instruction at step j), x_i_j / u_i_j (content /
occupancy of stack cell i before step j), optional a_j (pushed constant) and l_* (position of a unique instruction).
The enumerator explores it as a transition system in time order: choose t_j, propagate forced literals through ALL
assertions by three-valued evaluation (unit propagation to a fixpoint), branch over any variable of the next time
step that is still undetermined (an under-constrained encoding therefore yields several successors instead of being
missed), and finally evaluate every assertion two-valued on the complete assignment.  Every reported model satisfies
all hard constraints under the evaluator below; the projection of interest is (t_0 .. t_{b0-1}).

Uninterpreted sorts/functions are interpreted in the term algebra (ground terms are distinct individuals), which is a
model of the `distinct` assertion the tool emits; Int-valued symbols fixed by a top-level equation take that value.
"""
import re

TOKEN = re.compile(r"\(|\)|[^\s()]+")


class SmtError(Exception):
    pass


def parse_all(text):
    toks = TOKEN.findall(text)
    pos = 0
    out = []

    def rd():
        nonlocal pos
        t = toks[pos]
        pos += 1
        if t == "(":
            lst = []
            while toks[pos] != ")":
                lst.append(rd())
            pos += 1
            return lst
        if t == ")":
            raise SmtError("unbalanced parenthesis")
        return t

    while pos < len(toks):
        out.append(rd())
    return out


CONNECTIVES = {"and", "or", "not", "=>", "=", "<", "<=", "distinct", ">", ">="}
VAR_RE = re.compile(r"^(t|a)_(\d+)$|^(x|u)_(\d+)_(\d+)$|^l_.*$")


class Problem:
    def __init__(self, text):
        self.text = text
        self.cmds = parse_all(text)
        self.logic = None
        self.sorts = []
        self.decls = {}       # name -> (arg sorts, result sort)
        self.dups = []
        self.hard = []
        self.soft = []        # (formula, weight, group)
        for c in self.cmds:
            if not isinstance(c, list) or not c:
                raise SmtError("top-level atom %r" % (c,))
            h = c[0]
            if h == "set-logic":
                self.logic = c[1]
            elif h == "declare-sort":
                self.sorts.append(c[1])
            elif h == "declare-fun":
                if c[1] in self.decls:
                    self.dups.append(c[1])
                self.decls[c[1]] = (list(c[2]), c[3])
            elif h == "assert":
                self.hard.append(c[1])
            elif h == "assert-soft":
                w = 1
                g = None
                for k in range(2, len(c) - 1):
                    if c[k] == ":weight":
                        w = int(c[k + 1])
                    if c[k] == ":id":
                        g = c[k + 1]
                self.soft.append((c[1], w, g))
            elif h in ("set-option", "minimize", "check-sat", "get-objectives", "get-model", "set-info", "exit"):
                pass
            else:
                raise SmtError("unexpected command %s" % h)
        self.t_vars = sorted((n for n in self.decls if re.match(r"^t_\d+$", n)), key=lambda n: int(n[2:]))
        self.b0 = len(self.t_vars)
        xs = [n for n in self.decls if re.match(r"^x_\d+_\d+$", n)]
        self.bs = 1 + max((int(n.split("_")[1]) for n in xs), default=-1)
        self.time_of = {}
        for n in self.decls:
            m = re.match(r"^[ta]_(\d+)$", n)
            if m:
                self.time_of[n] = int(m.group(1))
            m = re.match(r"^[xu]_\d+_(\d+)$", n)
            if m:
                self.time_of[n] = int(m.group(1))
        self.l_vars = [n for n in self.decls if n.startswith("l_")]
        self.variables = set(self.time_of) | set(self.l_vars)

    # ---------------------------------------------------------------- static well-formedness
    def wellformed(self):
        """List of problems with the text: duplicate declarations, undeclared symbols, arity / sort mismatches."""
        errs = []
        for d in self.dups:
            errs.append("symbol %s declared twice" % d)
        if self.logic is None:
            errs.append("no set-logic")
        known_sorts = {"Int", "Bool"} | set(self.sorts)
        for n, (args, res) in self.decls.items():
            for s in args + [res]:
                if s not in known_sorts:
                    errs.append("symbol %s uses undeclared sort %s" % (n, s))
        if self.logic in ("QF_IDL", "QF_LIA") and (self.sorts or any(a for a, _ in self.decls.values())):
            errs.append("logic %s but uninterpreted sorts/functions are declared" % self.logic)
        if self.logic == "QF_UF" and any(r == "Int" for _a, r in self.decls.values()):
            errs.append("logic QF_UF but Int symbols are declared")

        def sort_of(f):
            if isinstance(f, str):
                if f in ("true", "false"):
                    return "Bool"
                if re.match(r"^-?\d+$", f):
                    return "Int"
                d = self.decls.get(f)
                if d is None:
                    errs.append("undeclared symbol %s" % f)
                    return None
                if d[0]:
                    errs.append("function %s used without arguments" % f)
                return d[1]
            h = f[0]
            if isinstance(h, list):
                errs.append("application of a non-symbol")
                return None
            if h in CONNECTIVES:
                ss = [sort_of(a) for a in f[1:]]
                if not f[1:]:
                    errs.append("connective %s without arguments" % h)
                if h in ("and", "or", "not", "=>"):
                    for s in ss:
                        if s is not None and s != "Bool":
                            errs.append("connective %s applied to sort %s" % (h, s))
                    if h == "not" and len(ss) != 1:
                        errs.append("not with %d arguments" % len(ss))
                    if h == "=>" and len(ss) != 2:
                        errs.append("=> with %d arguments" % len(ss))
                elif h in ("<", "<=", ">", ">="):
                    for s in ss:
                        if s is not None and s != "Int":
                            errs.append("%s applied to sort %s" % (h, s))
                else:
                    known = [s for s in ss if s is not None]
                    if len(set(known)) > 1:
                        errs.append("%s between different sorts %s" % (h, sorted(set(known))))
                return "Bool"
            d = self.decls.get(h)
            if d is None:
                errs.append("undeclared function %s" % h)
                for a in f[1:]:
                    sort_of(a)
                return None
            if len(d[0]) != len(f) - 1:
                errs.append("function %s declared with arity %d used with %d" % (h, len(d[0]), len(f) - 1))
            for a, s in zip(f[1:], d[0]):
                sa = sort_of(a)
                if sa is not None and sa != s:
                    errs.append("argument of %s has sort %s, declared %s" % (h, sa, s))
            return d[1]

        for f in self.hard + [s[0] for s in self.soft]:
            s = sort_of(f)
            if s is not None and s != "Bool":
                errs.append("asserted term of sort %s" % s)
        return sorted(set(errs))


UNK = None


class Enumerator:
    def __init__(self, prob, node_cap=400000, branch_free_cells=False):
        self.p = prob
        self.node_cap = node_cap
        self.nodes = 0
        self.assignments = 0
        self.cap_hit = False
        self.branch_free_cells = branch_free_cells
        p = prob
        # fixed values of Int constants given by top-level equations (stack_vars encoding)
        self.fixed = {}
        for f in p.hard:
            if isinstance(f, list) and f[0] == "=" and len(f) == 3:
                a, b = f[1], f[2]
                for x, y in ((a, b), (b, a)):
                    if isinstance(x, str) and x in p.decls and x not in p.variables and isinstance(y, str) \
                            and re.match(r"^-?\d+$", y):
                        self.fixed[x] = int(y)
        # domains
        self.theta_values = self._t_domain()
        self.int_consts = sorted({int(tok) for tok in TOKEN.findall(p.text) if re.match(r"^-?\d+$", tok)})
        self.ground = []  # individuals that may sit in a stack cell
        self._collect_ground()
        # index assertions by the largest time step they mention (None: mentions l_* or nothing)
        self.by_time = {}
        self.rest = []
        for f in p.hard:
            vs = self._vars(f)
            times = [p.time_of[v] + (0 if v[0] in "xu" else 1) for v in vs if v in p.time_of]
            if any(v.startswith("l_") for v in vs) or not times:
                self.rest.append(f)
            else:
                self.by_time.setdefault(max(times), []).append(f)

    def _vars(self, f, acc=None):
        if acc is None:
            acc = set()
        if isinstance(f, str):
            if f in self.p.variables:
                acc.add(f)
        else:
            for a in f:
                self._vars(a, acc)
        return acc

    def _t_domain(self):
        """Values t_j may take: the right-hand sides of equations with a t variable (plus one value outside)."""
        vals = []
        tv = set(self.p.t_vars)

        def walk(f):
            if isinstance(f, list):
                if f and f[0] == "=" and len(f) == 3:
                    for a, b in ((f[1], f[2]), (f[2], f[1])):
                        if isinstance(a, str) and a in tv and isinstance(b, str) and b not in tv:
                            v = self.const_value(b)
                            if v not in vals:
                                vals.append(v)
                for a in f:
                    walk(a)

        for f in self.p.hard:
            walk(f)
        return vals + ["<other-theta>"]

    def _collect_ground(self):
        seen = []

        def walk(f):
            if isinstance(f, list):
                if f and isinstance(f[0], str) and f[0] in self.p.decls and self.p.decls[f[0]][0]:
                    v = self.term_value(f, {})
                    if v is not UNK and v not in seen:
                        seen.append(v)
                for a in f:
                    walk(a)
            elif isinstance(f, str) and f in self.p.decls and f not in self.p.variables:
                d = self.p.decls[f]
                if not d[0] and d[1] not in ("Bool", "T") and not f.startswith("theta_"):
                    v = self.const_value(f)
                    if v not in seen:
                        seen.append(v)

        for f in self.p.hard:
            walk(f)
        # plain integers used as stack contents in the int encoding
        xsort = None
        for n, (a, r) in self.p.decls.items():
            if n.startswith("x_"):
                xsort = r
                break
        if xsort == "Int":
            for c in self.int_consts:
                if c not in seen:
                    seen.append(c)
        self.ground = seen

    def const_value(self, name):
        if re.match(r"^-?\d+$", name):
            return int(name)
        if name == "true":
            return True
        if name == "false":
            return False
        if name in self.fixed:
            return self.fixed[name]
        return "@" + name

    def term_value(self, f, A):
        """Value of a term under assignment A (UNK if it depends on an unassigned variable)."""
        if isinstance(f, str):
            if f in self.p.variables:
                return A.get(f, UNK)
            return self.const_value(f)
        h = f[0]
        if h in CONNECTIVES:
            return self.ev(f, A)
        args = [self.term_value(a, A) for a in f[1:]]
        if any(a is UNK for a in args):
            return UNK
        return "@%s(%s)" % (h, ",".join(str(a) for a in args))

    def ev(self, f, A):
        """Three-valued evaluation: True / False / UNK."""
        if isinstance(f, str):
            v = self.term_value(f, A)
            return v
        h = f[0]
        if h == "and":
            res = True
            for a in f[1:]:
                v = self.ev(a, A)
                if v is False:
                    return False
                if v is UNK:
                    res = UNK
            return res
        if h == "or":
            res = False
            for a in f[1:]:
                v = self.ev(a, A)
                if v is True:
                    return True
                if v is UNK:
                    res = UNK
            return res
        if h == "not":
            v = self.ev(f[1], A)
            return UNK if v is UNK else (not v)
        if h == "=>":
            a = self.ev(f[1], A)
            if a is False:
                return True
            b = self.ev(f[2], A)
            if b is True:
                return True
            if a is True and b is False:
                return False
            return UNK
        if h in ("=", "distinct", "<", "<=", ">", ">="):
            vals = [self.term_value(a, A) for a in f[1:]]
            if h == "distinct":
                known = [v for v in vals if v is not UNK]
                if len(set(map(_key, known))) < len(known):
                    return False
                return UNK if len(known) < len(vals) else True
            if any(v is UNK for v in vals):
                return UNK
            if h == "=":
                return all(_key(vals[0]) == _key(v) for v in vals[1:])
            a, b = vals
            if isinstance(a, str) or isinstance(b, str):
                # an Int-sorted uninterpreted term (uninterpreted_int encoding) compared with something: the only
                # such constraints the tool emits are range constraints 0 <= v < 2^256, which the free term can
                # always satisfy; anything else is outside the fragment
                if isinstance(a, str) and isinstance(b, str):
                    raise SmtError("order comparison between two uninterpreted terms %r" % (vals,))
                return True
            return {"<": a < b, "<=": a <= b, ">": a > b, ">=": a >= b}[h]
        return self.term_value(f, A)

    # ---------------------------------------------------------------- propagation
    def force(self, f, want, A, trail):
        """Make formula f evaluate to `want` by assigning variables when that is the only way (unit propagation).
        Returns False on conflict."""
        v = self.ev(f, A)
        if v is not UNK:
            return v == want
        if isinstance(f, str):
            if f in self.p.variables:
                A[f] = want
                trail.append(f)
                return True
            return True
        h = f[0]
        if h == "not":
            return self.force(f[1], not want, A, trail)
        if h == "and":
            if want:
                for a in f[1:]:
                    if not self.force(a, True, A, trail):
                        return False
                return True
            unk = [a for a in f[1:] if self.ev(a, A) is UNK]
            if len(unk) == 1:
                return self.force(unk[0], False, A, trail)
            return True
        if h == "or":
            if not want:
                for a in f[1:]:
                    if not self.force(a, False, A, trail):
                        return False
                return True
            unk = [a for a in f[1:] if self.ev(a, A) is UNK]
            if len(unk) == 1:
                return self.force(unk[0], True, A, trail)
            return True
        if h == "=>":
            if want:
                a = self.ev(f[1], A)
                if a is True:
                    return self.force(f[2], True, A, trail)
                b = self.ev(f[2], A)
                if b is False:
                    return self.force(f[1], False, A, trail)
                return True
            return self.force(f[1], True, A, trail) and self.force(f[2], False, A, trail)
        if h == "=" and len(f) == 3 and want:
            a, b = f[1], f[2]
            va, vb = self.term_value(a, A), self.term_value(b, A)
            if va is UNK and vb is not UNK and isinstance(a, str) and a in self.p.variables:
                A[a] = vb
                trail.append(a)
                return True
            if vb is UNK and va is not UNK and isinstance(b, str) and b in self.p.variables:
                A[b] = va
                trail.append(b)
                return True
            return True
        if h == "=" and len(f) == 3 and not want:
            # Boolean disequality determines the other side
            a, b = f[1], f[2]
            va, vb = self.term_value(a, A), self.term_value(b, A)
            if isinstance(vb, bool) and va is UNK and isinstance(a, str) and a in self.p.variables:
                A[a] = not vb
                trail.append(a)
            elif isinstance(va, bool) and vb is UNK and isinstance(b, str) and b in self.p.variables:
                A[b] = not va
                trail.append(b)
            return True
        return True

    def propagate(self, formulas, A, trail):
        changed = True
        while changed:
            n = len(trail)
            for f in formulas:
                if not self.force(f, True, A, trail):
                    return False
            changed = len(trail) > n
        return True

    # ---------------------------------------------------------------- search
    def domain(self, var):
        p = self.p
        if var.startswith("u_"):
            return [False, True]
        if var.startswith("t_"):
            return list(self.theta_values)
        if var.startswith("x_"):
            return list(self.ground) + ["<junk>"]
        if var.startswith("a_"):
            return list(self.int_consts) + list(self.ground)[:0] + [-7]
        if var.startswith("l_"):
            return list(range(-1, p.b0 + 1))
        raise SmtError("no domain for %s" % var)

    def models(self, fixed_t=None):
        """Yield (projection tuple, full assignment) for every model found (every projection at least once).
        fixed_t: optional list of theta values, one per position: only models with exactly that t_0..t_b0-1 are
        searched (used to complete a known instruction sequence into a full model of a long instance)."""
        p = self.p
        A = {}
        trail = []
        cum = {}
        acc = []
        for t in range(0, p.b0 + 2):
            acc = acc + self.by_time.get(t, [])
            cum[t] = acc

        def open_vars(j, with_a):
            """x/u variables of time j (and a_{j-1} when with_a) that the constraints so far leave undetermined."""
            out = []
            for v, t in p.time_of.items():
                if v in A:
                    continue
                if t == j and v[0] in "xu":
                    out.append(v)
                elif with_a and t == j - 1 and v[0] == "a":
                    out.append(v)
            # occupancy flags first: an empty cell's content is then not branched on
            return sorted(out, key=lambda v: (0 if v[0] == "u" else 1 if v[0] == "a" else 2, v))

        def assign_open(vars_, k, forms, cont):
            if k == len(vars_):
                yield from cont()
                return
            v = vars_[k]
            if v in A:
                yield from assign_open(vars_, k + 1, forms, cont)
                return
            dom = self.domain(v)
            if v.startswith("x_") and not self.branch_free_cells and A.get("u_" + v[2:]) is False:
                # content of an empty cell: every constraint of the encoding guards cell contents by the occupancy
                # flag, so one representative suffices (branch_free_cells=True lifts this assumption)
                dom = ["<junk>"]
            for val in dom:
                mark = len(trail)
                A[v] = val
                trail.append(v)
                self.assignments += 1
                if self.propagate(forms, A, trail) and not self._violated(forms, A):
                    yield from assign_open(vars_, k + 1, forms, cont)
                while len(trail) > mark:
                    del A[trail.pop()]

        def step(j):
            self.nodes += 1
            if self.nodes > self.node_cap:
                self.cap_hit = True
                return
            if j == p.b0:
                rest_vars = sorted(v for v in p.variables if v not in A)
                yield from assign_open(rest_vars, 0, p.hard, final)
                return
            tv = p.t_vars[j]
            # every variable of time <= j is assigned, so the assertions of earlier buckets are already decided
            forms = self.by_time.get(j + 1, [])
            for val in (self.theta_values if fixed_t is None else [fixed_t[j]]):
                mark = len(trail)
                A[tv] = val
                trail.append(tv)
                self.assignments += 1
                if self.propagate(forms, A, trail) and not self._violated(forms, A):
                    yield from assign_open(open_vars(j + 1, True), 0, forms, lambda jj=j: step(jj + 1))
                while len(trail) > mark:
                    del A[trail.pop()]

        def final():
            if all(self.ev(f, A) is True for f in p.hard):
                yield tuple(A[t] for t in p.t_vars), dict(A)

        if not self.propagate(cum[0], A, trail) or self._violated(cum[0], A):
            return
        yield from assign_open(open_vars(0, False), 0, cum[0], lambda: step(0))

    def _violated(self, formulas, A):
        for f in formulas:
            if self.ev(f, A) is False:
                return True
        return False

    def projections(self):
        """dict projection -> (one full model, soft cost)"""
        out = {}
        for proj, A in self.models():
            if proj not in out:
                out[proj] = (A, self.soft_cost(A))
        return out

    def soft_cost(self, A):
        c = 0
        for f, w, _g in self.p.soft:
            v = self.ev(f, A)
            if v is not True:
                c += w
        return c


def _key(v):
    # ints and individuals never coincide; bool is not an int here
    return (type(v).__name__, v)


def model_text(prob, A, style="oms", order="decl"):
    """Render a model the way the solver binaries print it (only what the tool's reader looks at: define-fun lines).
    order: "decl" (declaration order), "sorted", "reverse" -- solvers print definitions in hash order, a reader must
    not depend on it."""
    lines = ["sat"]
    if style == "oms":
        lines.append("(objectives\n (cost 0)\n)")
    lines.append("(model" if style == "oms" else "(")
    names = list(prob.decls.items())
    if order == "sorted":
        names.sort(key=lambda kv: kv[0])
    elif order == "reverse":
        names.sort(key=lambda kv: kv[0], reverse=True)
    for name, (args, res) in names:
        if args:
            continue
        if name in A:
            v = A[name]
        else:
            v = "@" + name
        lines.append(_define(name, res, v, style))
    lines.append(")")
    return "\n".join(lines) + "\n"


def _define(name, sort, v, style):
    if isinstance(v, bool):
        s = "true" if v else "false"
    elif isinstance(v, int):
        s = str(v) if v >= 0 else "(- %d)" % -v
    else:
        s = "%s!val!%s" % (sort, re.sub(r"[^A-Za-z0-9_]", "_", str(v)))
    if style == "oms":
        return "  (define-fun %s () %s %s)" % (name, sort, s)
    return "  (define-fun %s () %s\n    %s)" % (name, sort, s)
