"""C04 -- the greedy back-end returns a sequence that realizes the specification.

Specifications: (a) those the real front-end produces for every enumerated block (three split policies);
(b) hand-enumerated well-formed specifications (term DAG shapes x target stacks x dependency sets);
(c) deep-stack family (operands at depth 14..19).  Oracle: E3 realizes(S, ids).
"""
import copy
import itertools
import json

from . import blocks as B
from . import driver, pool, report, families, repo, sym_ref, handspecs

NAME = "verif_block_0"


def greedy(sfs):
    from greedy.block_generation import greedy_from_json
    with repo.quiet():
        _j, _enc, res, resids, error = greedy_from_json(copy.deepcopy(sfs))
    return res, resids, error


def check_spec(sfs):
    """(violation clause or None, status) for one specification."""
    res, resids, error = greedy(sfs)
    if error != 0 or resids is None:
        return None, "gave-up"
    bad = sym_ref.realizes(sfs, resids)
    if bad is not None:
        return {"clause": list(map(str, bad)), "ids": list(resids)}, "wrong"
    if res is not None and len(res) != len(resids):
        return {"clause": ["rendering-length", str(len(res)), str(len(resids))], "ids": list(resids)}, "wrong"
    return None, "ok"


PERM_MAX_SRC = 4  # every arrangement of the initial stack is tried up to this many words (5 after a give-up)


def arrangements(sfs, status):
    """The same specification started from every other arrangement of its initial stack.  Taken for specifications
    on which the greedy gave up (its own final check rejected what it built: one arrangement away the wrong sequence
    may pass) and for specifications that declare an order between memory/storage operations."""
    src = list(sfs["src_ws"])
    n = len(src)
    if n < 2 or len(set(map(str, src))) != n:
        return
    if not (status == "gave-up" and n <= PERM_MAX_SRC + 1) and not (sfs.get("dependencies") and n <= PERM_MAX_SRC):
        return
    for perm in itertools.permutations(src):
        if list(perm) == src:
            continue
        s2 = copy.deepcopy(sfs)
        s2["src_ws"] = list(perm)
        yield s2


def work(ctx, unit):
    kind, payload = unit
    out = {"specs": 0, "ok": 0, "gave_up": 0, "viol": None, "raised": None, "nontrivial": 0, "arranged": 0}
    if kind == "block":
        try:
            specs, _ = driver.specs_for(ctx, payload, name=NAME)
        except (repo.UnitTimeout, MemoryError):
            raise
        except Exception as e:
            out["raised"] = "%s: %s" % (type(e).__name__, str(e)[:100])
            return out
        items = list(specs.items())
    else:
        items = [("hand", payload)]
    for key, sfs in items:
        out["specs"] += 1
        v, status = check_spec(sfs)
        if status == "ok":
            out["ok"] += 1
            if len(sfs["user_instrs"]) >= 2:
                out["nontrivial"] += 1
        elif status == "gave-up":
            out["gave_up"] += 1
        spec = sfs
        if not v and kind == "block":
            for s2 in arrangements(sfs, status):
                out["arranged"] += 1
                v, st2 = check_spec(s2)
                if st2 == "gave-up":
                    out["gave_up"] += 1
                elif st2 == "ok":
                    out["ok"] += 1
                if v:
                    v["arranged_from"] = list(sfs["src_ws"])
                    spec = s2
                    break
        if v:
            v["config"] = list(ctx.cfg)
            v["kind"] = kind if spec is sfs else "arranged"
            v["block"] = B.to_text(payload) if kind == "block" else None
            v["spec"] = spec
            out["viol"] = v
            break
    return out


def signature(v):
    ops = sorted({ui["disasm"] for ui in v["spec"]["user_instrs"]})
    return "%s;%s;ops=[%s];nsrc=%d" % (v["clause"][0], v["kind"], ",".join(ops), min(len(v["spec"]["src_ws"]), 17))


def crossfeed_family(tier):
    """Words over the loads and stores with every operand taken from the stack: load results feed the next operation,
    so memory and storage orderings interlock (this is where the greedy's merge heuristic goes wrong and its final
    dependency check has to reject the sequence)."""
    ops = ["SLOAD", "MLOAD", "MSTORE", "SSTORE", "MSTORE8", "KECCAK256"]
    out = []
    for n in ((3, 4) if tier == "quick" else (3, 4, 5)):
        for w in itertools.product(ops[:4] if n >= 4 and tier == "quick" else ops, repeat=n):
            out.append([B.I(o) for o in w])
    return out


def unit_sets(tier):
    cfgs = [("-greedy",), ("-storage", "-greedy"), ("-partition", "-greedy")]
    yield "crossfeed-family", [("block", b) for b in crossfeed_family(tier)], cfgs[:1] if tier == "quick" else cfgs
    if tier == "quick":
        yield "tree(CORE,3)", [("block", b) for b in B.tree(B.CORE, 3)], cfgs
        yield "tree(MIXED,3)", [("block", b) for b in B.tree(B.MIXED, 3)], cfgs
        yield "mem-family(2)", [("block", b) for b in families.mem_family(2)], cfgs
        yield "rule-family(1)", [("block", b) for b in families.rule_family(1)], cfgs[:1]
        yield "hand-specs", [("spec", s) for s in handspecs.hand_specs(level=1)], cfgs[:1]
        yield "vocabulary-family", [("block", b) for b in families.vocabulary_family()], cfgs
        yield "cse-family", [("block", b) for b in families.cse_family()], cfgs[:1]
        yield "deep-specs", [("spec", s) for s in handspecs.deep_specs(level=1)], cfgs[:1]
    else:
        yield "tree(CORE,4)", [("block", b) for b in B.tree(B.CORE, 4)], cfgs
        yield "tree(MIXED,4)", [("block", b) for b in B.tree(B.MIXED, 4)], cfgs
        yield "mem-family(3)", [("block", b) for b in families.mem_family(3)], cfgs
        yield "rule-family(2)", [("block", b) for b in families.rule_family(2)], cfgs[:1]
        yield "hand-specs", [("spec", s) for s in handspecs.hand_specs(level=2)], cfgs[:1]
        yield "vocabulary-family", [("block", b) for b in families.vocabulary_family()], cfgs
        yield "cse-family", [("block", b) for b in families.cse_family()], cfgs[:1]
        yield "deep-specs", [("spec", s) for s in handspecs.deep_specs(level=2)], cfgs[:1]


def main(tier, seed, only=None):
    chk = report.Check("C04", "exploration", tier, seed)
    chk.cov["rule"] = ("specifications from the real front-end on enumerated blocks x 3 split policies, plus "
                       "hand-enumerated and deep-stack specifications, plus every other arrangement of the initial stack "
                       "(<= 4 words, 5 after a give-up) of each front-end specification that declares an order between "
                       "memory/storage operations or on which the greedy gave up; greedy_from_json is run on each and, when it "
                       "reports success, its id sequence is executed on the symbolic stack machine (E3); non-trivial "
                       "= successful runs on specifications with at least two instructions")
    tot = {"specs": 0, "ok": 0, "gave_up": 0, "raised": 0, "budget": 0, "nontrivial": 0, "arranged": 0}
    sets = {}

    def on_result(cfg, unit, status, value):
        chk.add("evaluations")
        if status != "ok":
            tot["budget"] += 1
            return
        for k in ("specs", "ok", "gave_up", "nontrivial", "arranged"):
            tot[k] += value.get(k, 0)
        if value["raised"]:
            tot["raised"] += 1
        if value["viol"]:
            chk.violation(signature(value["viol"]), value["viol"])
        elif value["nontrivial"] and tot["ok"] % 5000 < 3 and unit[0] == "block":
            chk.sample({"block": B.to_text(unit[1]), "config": list(cfg)})

    for name, units, cs in unit_sets(tier):
        if only and only not in name:
            continue
        sets[name] = {"units": len(units), "configs": len(cs)}
        tasks = [(cfg, ch) for cfg in cs for ch in pool.chunks(units, max(300, len(units) // 16 + 1))]
        pool.run_tasks(tasks, work, setup=driver.setup_ctx, unit_timeout=20, on_result=on_result)
    chk.cov.update({"sets": sets, "specifications": tot["specs"], "greedy_success": tot["ok"],
                    "greedy_gave_up": tot["gave_up"], "rearranged_initial_stacks": tot["arranged"], "frontend_raised": tot["raised"],
                    "skipped_budget": tot["budget"], "distinct_nontrivial": tot["nontrivial"]})
    if not chk.cov["samples"]:
        chk.sample({"note": "see sets"})
    return chk.finish(guards={"greedy_success": tot["ok"]})


def replay(path):
    w = json.load(open(path))
    res = {}

    def on_result(cfg, unit, status, value):
        res["status"], res["value"] = status, value

    pool.run_tasks([(tuple(w["config"]), [("spec", w["spec"])])], work, setup=driver.setup_ctx, unit_timeout=60,
                   on_result=on_result)
    v = res.get("value")
    if res.get("status") == "ok" and v["viol"]:
        print("VIOLATION property=C04 replay=%s" % path)
        print("  " + json.dumps(v["viol"]["clause"]))
        return 1
    print("no violation on replay (%s)" % res.get("status"))
    return 0
