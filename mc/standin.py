"""Stand-in Max-SMT solver: the model enumerator (E5) behind the tool's solver wrappers.

Installed by rebinding `smt_encoding.solver.solver_from_executable.run_and_measure_command` inside the harness
process (no source hook).  It reads the .smt2 file the tool has just written, enumerates the projected models and
answers with a minimum-penalty model in the syntax of the solver the tool thinks it is calling; beyond the stated
bounds it answers like a solver that gives up (no model).
"""
import re

from . import smt_enum

LIMITS = {"b0": 5, "bs": 5, "nodes": 80000}
STATS = {"calls": 0, "models": 0, "unsat": 0, "gave_up": 0}


def _answer(cmd):
    parts = cmd.split()
    path = next((p for p in parts if p.endswith(".smt2")), None)
    style = "z3" if "z3" in parts[0].rsplit("/", 1)[-1] else "oms"
    STATS["calls"] += 1
    if path is None:
        return "(error \"no input\")\n"
    text = open(path).read()
    try:
        prob = smt_enum.Problem(text)
    except smt_enum.SmtError:
        STATS["gave_up"] += 1
        return _no_model(style)
    if prob.b0 > LIMITS["b0"] or prob.bs > LIMITS["bs"] or prob.wellformed():
        STATS["gave_up"] += 1
        return _no_model(style)
    en = smt_enum.Enumerator(prob, node_cap=LIMITS["nodes"])
    try:
        projs = en.projections()
    except smt_enum.SmtError:
        STATS["gave_up"] += 1
        return _no_model(style)
    if en.cap_hit:
        STATS["gave_up"] += 1
        return _no_model(style)
    if not projs:
        STATS["unsat"] += 1
        return "unsat\n"
    best = min(projs.items(), key=lambda kv: (kv[1][1], str(kv[0])))
    STATS["models"] += 1
    return smt_enum.model_text(prob, best[1][0], style)


def _no_model(style):
    if style == "oms":
        return "unknown\n(error \"model generation not enabled\")\n"
    return "unknown\n(error \"line 1: model is not available\")\n"


def run_and_measure_command(cmd):
    return _answer(cmd), 0.01


def install():
    import smt_encoding.solver.solver_from_executable as sfe
    sfe.run_and_measure_command = run_and_measure_command
    return True
