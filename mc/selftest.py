"""Self-tests of the reference models (the trusted base).  Run at setup: `python -m mc.selftest`.
With z3 importable (python3-vt) the arithmetic opcodes are additionally cross-checked against z3 bit-vector
semantics on all pairs of boundary values: `python3-vt -m mc.selftest --z3`."""
import hashlib
import itertools
import sys

from . import evm_ref as E
from .keccak import keccak256

B = [0, 1, 2, 3, 7, 31, 32, 33, 255, 256, 257, (1 << 255) - 1, 1 << 255, (1 << 255) + 1, E.MASK - 1, E.MASK,
     0x8000000000000000, (1 << 128) + 5, (1 << 160) - 1]


def run1(op, *args):
    """args[0] is the operand on top of the stack."""
    blk = [("PUSH", a) for a in reversed(args)] + [(op, None)]
    return E.run(blk, E.State([], 0)).stack[-1]


def basic():
    assert keccak256(b"").hex() == "c5d2460186f7233c927e7db2dcc703c0e500b653ca82273b7bfad8045d85a470"
    assert keccak256(b"abc").hex() == "4e03657aea45a94fc7d47ba826c8d667c0d1e6e33a64a036ec44f58fa12d6c45"
    for n in (0, 1, 55, 135, 136, 137, 271, 272, 273, 1000):
        d = bytes((i * 7 + 3) % 256 for i in range(n))
        assert keccak256(d, 0x06) == hashlib.sha3_256(d).digest(), n
    M1 = E.MASK
    # vectors from the EVM specification / ethereum tests
    assert run1("SDIV", M1, 1) == M1  # -1 / 1
    assert run1("SDIV", 1 << 255, M1) == 1 << 255  # MIN / -1 overflows to MIN
    assert run1("SDIV", M1 - 1, M1) == 2  # -2 / -1
    assert run1("SDIV", 5, 0) == 0
    assert run1("SMOD", M1 - 7, 3) == M1 - 1  # -8 % 3 = -2
    assert run1("SMOD", 8, M1 - 2) == 2  # 8 % -3 = 2
    assert run1("SMOD", 8, 0) == 0
    assert run1("MOD", 8, 0) == 0 and run1("DIV", 8, 0) == 0
    assert run1("ADDMOD", M1, 2, 2) == 1
    assert run1("MULMOD", M1, M1, 12) == 9
    assert run1("ADDMOD", 1, 2, 0) == 0
    assert run1("EXP", 2, 256) == 0 and run1("EXP", 0, 0) == 1 and run1("EXP", 3, 5) == 243
    assert run1("SIGNEXTEND", 0, 0xFF) == M1 and run1("SIGNEXTEND", 0, 0x7F) == 0x7F
    assert run1("SIGNEXTEND", 1, 0x8000) == M1 - 0x7FFF and run1("SIGNEXTEND", 31, 5) == 5
    assert run1("SIGNEXTEND", 32, 0xFF) == 0xFF
    assert run1("BYTE", 31, 0xAB) == 0xAB and run1("BYTE", 0, 0xAB) == 0 and run1("BYTE", 32, M1) == 0
    assert run1("SHL", 1, 1) == 2 and run1("SHL", 256, 1) == 0 and run1("SHL", 255, 1) == 1 << 255
    assert run1("SHR", 1, 2) == 1 and run1("SHR", 256, M1) == 0 and run1("SHR", 0, 5) == 5
    assert run1("SAR", 1, M1) == M1 and run1("SAR", 256, 1 << 255) == M1 and run1("SAR", 256, 5) == 0
    assert run1("SAR", 4, 1 << 255) == (0xF8 << 248)
    assert run1("SLT", M1, 0) == 1 and run1("SGT", M1, 0) == 0 and run1("LT", M1, 0) == 0
    assert run1("SUB", 0, 1) == M1 and run1("ADD", M1, 1) == 0 and run1("MUL", 1 << 255, 2) == 0
    assert run1("NOT", 0) == M1 and run1("ISZERO", 0) == 1 and run1("ISZERO", 5) == 0
    # memory / storage
    blk = [("PUSH", 0xAABB), ("PUSH", 1), ("MSTORE", None), ("PUSH", 0), ("MLOAD", None), ("PUSH", 32), ("MLOAD", None)]
    r = E.run(blk, E.State([], 0, mem_zero=True))
    assert r.stack == [0xAA, 0xBB << 248], [hex(x) for x in r.stack]
    blk = [("PUSH", 0x1234), ("PUSH", 31), ("MSTORE8", None), ("PUSH", 0), ("MLOAD", None)]
    assert E.run(blk, E.State([], 0, mem_zero=True)).stack == [0x34]
    blk = [("PUSH", 7), ("PUSH", 9), ("SSTORE", None), ("PUSH", 9), ("SLOAD", None)]
    assert E.run(blk, E.State([], 0)).stack == [7]
    blk = [("PUSH", 0), ("PUSH", 0), ("KECCAK256", None)]
    assert E.run(blk, E.State([], 0)).stack == [int(keccak256(b"").hex(), 16)]
    blk = [("PUSH", 32), ("PUSH", 0), ("KECCAK256", None)]
    assert E.run(blk, E.State([], 0, mem_zero=True)).stack == [int(keccak256(b"\x00" * 32).hex(), 16)]
    # need / delta
    assert E.need_delta([("DUP3", None), ("ADD", None), ("SWAP2", None)]) == (3, 0)
    assert E.need_delta([("PUSH", 1), ("POP", None), ("POP", None)]) == (1, -1)
    # distinguishing power of the comparator
    a = [("PUSH", 0), ("SHR", None)]
    assert E.compare(a, [("POP", None), ("PUSH", 0)], E.State([5], 0)) is not None
    assert E.compare(a, [], E.State([5], 0)) is None
    s1 = [("PUSH", 1), ("PUSH", 0), ("SSTORE", None), ("PUSH", 2), ("PUSH", 0), ("SSTORE", None)]
    s2 = [("PUSH", 2), ("PUSH", 0), ("SSTORE", None), ("PUSH", 1), ("PUSH", 0), ("SSTORE", None)]
    assert E.compare(s1, s2, E.State([], 0)) is not None
    assert E.compare(s1, s1[3:], E.State([], 0)) is None
    print("selftest basic: ok")


def with_z3():
    import z3
    bv = lambda v: z3.BitVecVal(v, 256)

    def val(e):
        return z3.simplify(e).as_long()

    def z_sdiv(a, b):
        return z3.If(b == 0, bv(0), a / b)

    def z_smod(a, b):
        return z3.If(b == 0, bv(0), z3.SRem(a, b))

    ops = {
        "ADD": lambda a, b: a + b, "SUB": lambda a, b: a - b, "MUL": lambda a, b: a * b,
        "DIV": lambda a, b: z3.If(b == 0, bv(0), z3.UDiv(a, b)),
        "MOD": lambda a, b: z3.If(b == 0, bv(0), z3.URem(a, b)),
        "SDIV": z_sdiv, "SMOD": z_smod,
        "LT": lambda a, b: z3.If(z3.ULT(a, b), bv(1), bv(0)), "GT": lambda a, b: z3.If(z3.UGT(a, b), bv(1), bv(0)),
        "SLT": lambda a, b: z3.If(a < b, bv(1), bv(0)), "SGT": lambda a, b: z3.If(a > b, bv(1), bv(0)),
        "EQ": lambda a, b: z3.If(a == b, bv(1), bv(0)),
        "AND": lambda a, b: a & b, "OR": lambda a, b: a | b, "XOR": lambda a, b: a ^ b,
        "SHL": lambda a, b: z3.If(z3.UGE(a, bv(256)), bv(0), b << a),
        "SHR": lambda a, b: z3.If(z3.UGE(a, bv(256)), bv(0), z3.LShR(b, a)),
        "SAR": lambda a, b: z3.If(z3.UGE(a, bv(256)), z3.If(b < 0, bv(E.MASK), bv(0)), b >> a),
    }
    n = 0
    for op, f in ops.items():
        for a, b in itertools.product(B, repeat=2):
            got = run1(op, a, b)
            exp = val(f(bv(a), bv(b)))
            assert got == exp, (op, hex(a), hex(b), hex(got), hex(exp))
            n += 1
    print("selftest z3: %d opcode evaluations agree" % n)


if __name__ == "__main__":
    basic()
    if "--z3" in sys.argv:
        with_z3()
