"""C12 -- a block's result does not depend on what was processed before it.

Explicit-state search: a state is the content of every module-level variable of the tool (canonical snapshot);
a transition processes one probe block (specification generation + optimize + compare) under a fixed option set.
BFS from the pristine state; a state is reached by replaying its (shortest) history in a freshly forked child
(live interpreter state cannot be copied).  Invariant on every transition: the result obtained for the probe equals
the result obtained in a fresh process.  Plus position independence inside a contract.
"""
import hashlib
import json
import sys
import types

from . import blocks as B
from . import docrun, docs, driver, pool, report, repo

NAME = "verif_block_0"
PROBES = []  # filled by main() before any worker is forked (hand-written menu + automatically selected probes)


def probes():
    P, I = B.P, B.I
    return [
        ("rules", [P(0), I("ADD"), P(1), I("MUL"), I("DUP1"), I("SUB")]),
        ("fold", [P(3), P(4), I("ADD"), P(2), I("EXP"), I("SWAP1"), I("POP")]),
        ("mem", [I("DUP2"), I("DUP2"), I("MSTORE"), I("SWAP1"), I("POP"), I("MLOAD"), P(1), I("SLOAD"), I("ADD")]),
        ("sto", [P(1), P(2), I("SSTORE"), P(2), I("SLOAD"), P(3), P(2), I("SSTORE")]),
        ("split", [P(0), I("DUP1"), I("LOG0"), P(1), P(1), I("ADD"), I("GAS"), I("POP")]),
        ("immutable", [P(5), P(0), I("ASSIGNIMMUTABLE", "a1"), I("PUSHIMMUTABLE", "a1"), I("POP")]),
        ("pushlib", [I("PUSHLIB", "l1"), I("PUSHLIB", "l2"), I("PUSHLIB", "l1"), I("ADD"), I("ADD")]),
        ("zero", [P(0), P(0), I("MSTORE"), P(0)]),
        ("raises", [I("PUSH [tag]", "1"), I("NOT"), I("NOT"), I("ADDMOD")]),
        ("pops", [I("POP"), I("POP"), I("POP")]),
        ("identity", [I("DUP1"), I("POP")]),
        ("long", [P(1), I("POP")] * 10 + [I("DUP2"), I("DUP2"), I("MSTORE")] + [P(2), I("POP")] * 3),
        ("tags", [I("PUSH [tag]", "7"), I("PUSH [tag]", "7"), I("PUSH data", "a1"), I("POP"), I("SWAP1")]),
        ("iszero", [I("ISZERO"), I("ISZERO"), I("ISZERO"), I("PUSH [tag]", "2"), I("JUMPI")]),
    ]


_EXTRA = []


def probes_all():
    return probes() + list(_EXTRA)


def candidate_pool():
    from . import families
    pool_ = []
    pool_ += list(B.tree(B.CORE, 3))[::9]
    pool_ += list(B.tree(B.MIXED, 3))[::11]
    pool_ += list(families.rule_family(1))[::60]
    pool_ += list(families.mem_family(2))[::25]
    pool_ += list(families.sandwich_family())[::70]
    P, I = B.P, B.I
    # repeated expressions that are not shared through DUP, stores of fresh values, consecutive splits
    pool_ += [[I("DUP2"), I("DUP2"), I("ADD"), I("SWAP2"), I("ADD"), P(0x40), I("MSTORE"), P(0x20), I("MSTORE")],
              [I("DUP2"), I("DUP2"), I("ADD"), I("SWAP2"), I("MUL"), I("DUP2"), I("MSTORE"), P(0x20), I("MSTORE")],
              [I("DUP2"), I("DUP2"), I("MUL"), I("SWAP2"), I("MUL"), I("SSTORE")],
              [I("DUP1"), I("DUP3"), I("XOR"), I("DUP3"), I("SWAP1"), I("XOR"), I("SWAP2"), I("POP"), I("POP")],
              [I("DUP1"), I("MLOAD"), I("DUP2"), I("MLOAD"), I("ADD"), I("SWAP1"), I("MSTORE")],
              [I("CALLER"), I("CALLER"), I("EQ"), I("ADDRESS"), I("BALANCE"), I("SELFBALANCE"), I("SUB")],
              [P(1), P(2), I("LOG0"), I("GAS"), I("GAS"), I("CALLDATACOPY")]]
    seen = set()
    out = []
    for b in pool_:
        t = tuple(b)
        if t not in seen:
            seen.add(t)
            out.append(b)
    return out


def _cls(v):
    return "empty" if v in ("[]", "{}", "0", "False", "''", "None", "-1", "True") else "set"


def work_footprints(ctx, cands):
    """Which module globals does each candidate block leave in a non-default shape?  (one child, sequential)"""
    ident = [("DUP1", None), ("POP", None)]
    process(ctx, ident)
    base = snapshot()
    out = []
    for blk in cands:
        try:
            process(ctx, blk)
        except (repo.UnitTimeout, MemoryError):
            raise
        except Exception:
            out.append([])
            continue
        s = snapshot()
        feats = sorted({"%s:%s" % (k, _cls(v)) for k, v in s.items() if base.get(k) != v and not k.endswith("_counter")})
        out.append(feats)
        process(ctx, ident)
        base = snapshot()
    return out


def select_probes(cfg, max_extra=14):
    """Greedy cover: extra probes so that every (global, shape) footprint some candidate leaves is left by a probe."""
    cands = candidate_pool()
    hand = [p[1] for p in probes()]
    res = {}

    def on_r(c, unit, status, value):
        res["status"], res["value"] = status, value

    pool.run_tasks([(cfg, [hand + cands])], work_footprints, setup=setup, unit_timeout=1200, on_result=on_r)
    if res.get("status") != "ok":
        return [], {"error": str(res.get("value"))[-200:]}
    fp = res["value"]
    covered = set()
    for f in fp[:len(hand)]:
        covered.update(f)
    universe = set()
    for f in fp:
        universe.update(f)
    extra = []
    rest = list(range(len(hand), len(fp)))
    while len(extra) < max_extra:
        best = max(rest, key=lambda i: len(set(fp[i]) - covered), default=None)
        if best is None or not (set(fp[best]) - covered):
            break
        covered |= set(fp[best])
        extra.append(("auto%d" % len(extra), cands[best - len(hand)]))
        rest.remove(best)
    return extra, {"footprints": len(universe), "covered_by_hand_probes": len(set().union(*[set(f) for f in fp[:len(hand)]])),
                   "covered_with_auto": len(covered), "candidates": len(cands)}


CFGS = [("-greedy",), ("-storage", "-greedy"), ("-size", "-greedy"), ("-partition", "-greedy"),
        ("-no-simplification", "-greedy"), ("-push0", "-greedy")]

# variables that legitimately differ between processes (private scratch location)
EXCLUDE_MODULES = {"global_params.paths"}


def canon(x, depth=0):
    if isinstance(x, (bool, int, str, type(None))):
        return repr(x)
    if isinstance(x, float):
        return "<float>"  # only timings are floats
    if isinstance(x, (list, tuple)):
        return "[" + ",".join(canon(e, depth + 1) for e in x) + "]"
    if isinstance(x, (set, frozenset)):
        return "{" + ",".join(sorted(canon(e, depth + 1) for e in x)) + "}"
    if isinstance(x, dict):
        return "{" + ",".join(sorted(canon(k, depth + 1) + ":" + canon(v, depth + 1) for k, v in x.items())) + "}"
    if isinstance(x, (types.FunctionType, types.BuiltinFunctionType, types.ModuleType, type, types.MethodType)):
        return "<code>"
    d = getattr(x, "__dict__", None)
    if d is not None and depth < 4:
        return "<%s %s>" % (type(x).__name__, canon({k: v for k, v in d.items()}, depth + 1))
    return "<%s>" % type(x).__name__


def snapshot():
    """name -> canonical value, for every module-level variable of every loaded module of the tool."""
    out = {}
    root = repo.REPO.rstrip("/") + "/"
    for mname, mod in list(sys.modules.items()):
        f = getattr(mod, "__file__", None)
        if not f or not f.startswith(root) or mname in EXCLUDE_MODULES:
            continue
        for k, v in vars(mod).items():
            if k.startswith("__"):
                continue
            if isinstance(v, (types.FunctionType, types.BuiltinFunctionType, types.ModuleType, type)):
                continue
            if callable(v) and not isinstance(v, (list, dict, set)):
                continue
            out["%s.%s" % (mname, k)] = canon(v)
    return out


def snap_hash(s):
    h = hashlib.sha1()
    for k in sorted(s):
        h.update(k.encode())
        h.update(b"=")
        h.update(s[k].encode())
        h.update(b";")
    return h.hexdigest()


def process(ctx, block):
    """One transition: the observable result of handling `block` (canonical JSON string)."""
    G = ctx.G
    res = {}
    repo.wipe_tool_tmp()
    with repo.quiet():
        ab = driver.build_one(block)
        try:
            d, subs = G.compute_original_sfs_with_simplifications(ab, ctx.params)
            res["specs"] = json.loads(json.dumps(d["syrup_contract"], sort_keys=True, default=str))
            res["subs"] = subs
        except (repo.UnitTimeout, MemoryError):
            raise
        except Exception as e:
            res["specs"] = "raised: %s" % str(e)[:80]
        ab = driver.build_one(block)
        try:
            nb, log, rows = G.optimize_asm_block_asm_format(ab, ctx.params)
            eq, reason = G.compare_asm_block_asm_format(ab, nb, ctx.params)
            if not eq:
                nb = ab
            res["out"] = nb.to_json()
            res["eq"] = [eq, reason]
            res["log"] = log
            res["rows"] = [{k: v for k, v in r.items() if "time" not in k} for r in rows]
        except (repo.UnitTimeout, MemoryError):
            raise
        except Exception as e:
            res["out"] = "raised: %s" % str(e)[:80]
    return json.dumps(res, sort_keys=True, default=str)


def setup(cfg):
    return driver.Ctx(cfg)  # no warm-up: the pristine state must be pristine


def work(ctx, history):
    """Replay a history of probe indexes from the pristine state; returns per-step result digests and snapshots."""
    ps = PROBES or probes()
    s0 = snapshot()
    steps = []
    prev = s0
    for idx in history:
        r = process(ctx, ps[idx][1])
        s = snapshot()
        changed = sorted(k for k in s if prev.get(k) != s[k])
        steps.append({"probe": idx, "result": hashlib.sha1(r.encode()).hexdigest(), "state": snap_hash(s),
                      "changed": changed[:40], "raw": r if len(history) == 1 else None})
        prev = s
    return {"pristine": snap_hash(s0), "steps": steps, "n_vars": len(s0)}


def de_bruijn(k, n):
    """de Bruijn sequence B(k, n) (FKM algorithm): every length-n word over range(k) occurs as a window."""
    a = [0] * k * n
    seq = []

    def db(t, p):
        if t > n:
            if n % p == 0:
                seq.extend(a[1:p + 1])
        else:
            a[t] = a[t - p]
            db(t + 1, p)
            for j in range(a[t - p] + 1, k):
                a[t] = j
                db(t + 1, t)

    db(1, 1)
    return seq + seq[:n - 1]


def work_walk(ctx, walk):
    """One long history (a de Bruijn walk): result digest and state hash after every step."""
    ps = PROBES or probes()
    out = []
    for idx in walk:
        r = process(ctx, ps[idx][1])
        out.append((idx, hashlib.sha1(r.encode()).hexdigest(), snap_hash(snapshot())))
    return out


def result_text(ctx, history):
    ps = PROBES or probes()
    out = None
    for idx in history:
        out = process(ctx, ps[idx][1])
    return out


# ---- cross-history agreement: result(B | H1) == result(B | H2) for many B and structurally different H

def victims():
    return candidate_pool()[::4]


def cross_history(j, n_victims):
    """History j: polluter j (none for j = 0) followed by all victims, rotated so that every victim sees different
    predecessors in different histories."""
    ps = PROBES or probes()
    rot = (j * 37) % max(1, n_victims)
    order = list(range(rot, n_victims)) + list(range(0, rot))
    return (None if j == 0 else (j - 1) % len(ps)), order


def work_cross(ctx, j):
    vs = victims()
    ps = PROBES or probes()
    pol, order = cross_history(j, len(vs))
    if pol is not None:
        process(ctx, ps[pol][1])
    out = {}
    for i in order:
        try:
            out[i] = hashlib.sha1(process(ctx, vs[i]).encode()).hexdigest()
        except (repo.UnitTimeout, MemoryError):
            raise
        except Exception as e:
            out[i] = "raised:%s" % type(e).__name__
    return out


# ---- saturation: the whole opcode vocabulary, round robin, many rounds in ONE process (finds state that only
# ---- matters after it accumulated: counters that are not reset, caches that fill up)

def vocabulary_blocks():
    from . import evm_ref as E
    out = []
    for op in sorted(E.ARITY):
        if op.startswith(("DUP", "SWAP", "PUSH")) or op in ("POP", "JUMPDEST", "tag"):
            continue
        a, r = E.ARITY[op]
        arg = "a1" if op == "ASSIGNIMMUTABLE" else None
        for blk in ([(op, arg), (op, arg)] + ([("ADD", None)] if (a, r) == (0, 1) else []), [(op, arg)]):
            if any(o in E.TERMINAL for o, _ in blk[:-1]):
                continue
            try:
                E.need_delta(blk)
            except Exception:
                continue
            out.append(blk)
            break
    return out


def work_saturate(ctx, rounds):
    vs = vocabulary_blocks()
    out = []
    for _ in range(rounds):
        row = []
        for blk in vs:
            try:
                row.append(hashlib.sha1(process(ctx, blk).encode()).hexdigest())
            except (repo.UnitTimeout, MemoryError):
                raise
            except Exception as e:
                row.append("raised:%s" % type(e).__name__)
        out.append(row)
    return out


# ---- position independence inside a contract

def position_docs():
    """(trio of blocks, layout): layout "stop" closes every block with STOP, "fall" lets every block fall through
    into the tag of the next one (the parser closes blocks differently at a terminal instruction and at a tag)."""
    P, I = B.P, B.I
    ps = [p[1] for p in probes() if p[0] in ("rules", "fold", "mem", "sto", "zero", "pushlib", "tags")]
    # blocks linking different libraries (identified per block by order of appearance) and different immutables
    ps += [[I("PUSHLIB", "la"), P(1), I("ADD"), P(0), I("ADD")],
           [I("PUSHLIB", "lb"), I("PUSHLIB", "lc"), I("SWAP1"), I("SUB"), I("PUSHLIB", "lb"), I("POP")],
           [I("PUSHIMMUTABLE", "b7"), I("PUSH data", "c3"), I("ADD"), I("PUSH #[$]", "0"), I("POP")]]
    out = []
    for i in range(len(ps)):
        trio = [ps[i], ps[(i + 1) % len(ps)], ps[(i + 2) % len(ps)]]
        out.append((trio, "stop"))
        out.append((trio, "fall"))
    return out


_ROW_DROP = ("", "block_id", "solver_time_in_sec")


def _block_view(r, cname, k, items):
    """Everything the run reports about the k-th run-code block of contract cname, block names removed."""
    pre = "%s_run_code_of_0_block_%d_" % (cname.split(":")[-1], k)
    rows = [{c: v for c, v in row.items() if c not in _ROW_DROP} for row in r["seqs"]
            if str(row.get("block_id", "")).startswith(pre)]
    log = [v for key, v in sorted((r["log"] or {}).items()) if key.startswith(pre)] if isinstance(r["log"], dict) else r["log"]
    text = B.to_text([i for i in docs.block_of_items(items) if i[0] not in ("tag", "JUMPDEST", "STOP")])
    return [text, rows, log]


def work_pos(state, unit):
    trio, layout = unit
    cfg = state["cfg"]
    seen = {}
    # rotations 0..2: the three blocks in one contract in rotated order; "alone": each block in a contract of its own
    for rot in (0, 1, 2, "alone"):
        if rot == "alone":
            placed = [("c%d.sol:C%d" % (n, n), [b]) for n, b in enumerate(trio)]
        else:
            placed = [("p.sol:P", trio[rot:] + trio[:rot])]
        contracts = {}
        for cname, order in placed:
            if layout == "stop":
                blocks = [list(b) + [("STOP", None)] for b in order]
            else:
                blocks = [list(b) for b in order] + [[("STOP", None)]]
            contracts[cname] = docs.make_contract([[("STOP", None)]], blocks)
        r = docrun.run_document(cfg, docs.make_doc(contracts), name="pos", extra_args=("-log",))
        if r["exc"] or r["out"] is None:
            return {"viol": {"clause": "position-run-failed", "detail": str(r["exc"])}}
        for cname, order in placed:
            items = r["out"]["contracts"][cname]["asm"][".data"]["0"][".code"]
            blks = docs.split_items(items)
            for k, b in enumerate(order):
                key = B.to_text(b)
                view = _block_view(r, cname, k, blks[k])
                if key in seen and seen[key][0] != view:
                    first = seen[key]
                    what = "emitted-code" if first[0][0] != view[0] else "statistics" if first[0][1] != view[1] else "log"
                    from .c15 import first_diff
                    return {"viol": {"clause": "position-dependent;" + what, "block": key, "layout": layout,
                                     "first": [first[1], first[2]], "now": [rot, k],
                                     "diff": first_diff(first[0], view)}}
                seen.setdefault(key, [view, rot, k])
    return {"viol": None, "blocks": len(seen), "rows": sum(len(v[0][1]) for v in seen.values())}


def setup_pos(cfg):
    repo.load()
    return {"cfg": cfg}


def main(tier, seed, only=None):
    chk = report.Check("C12", "model_checking", tier, seed)
    depth = 1 if tier == "quick" else 2
    order = 2 if tier == "quick" else 3
    extra, sel = select_probes(("-greedy",), max_extra=10 if tier == "quick" else 14)
    del PROBES[:]
    PROBES.extend(probes() + extra)
    ps = PROBES
    chk.cov["rule"] = ("explicit-state search over processing histories: %d probe blocks (one per group of module "
                       "globals), transitions = process one probe (specification + optimize + compare), state = "
                       "canonical snapshot of every module-level variable of the tool; BFS with state hashing to depth "
                       "%d (each history replayed in a fresh process) plus one de Bruijn walk of order %d per option "
                       "set (every word of that length over the probes occurs as consecutive transitions), %d option "
                       "sets; invariant on every transition: result == result in a fresh process; plus cross-history "
                       "agreement over a victim pool and saturation histories (one block per opcode of the vocabulary, "
                       "round robin, 13/41 rounds in one process, every round must repeat the first); non-trivial = "
                       "distinct global states reached" % (len(ps), depth, order, len(CFGS)))
    tot = {"states": 0, "transitions": 0, "histories": 0, "budget": 0, "nvars": 0, "pos": 0}
    changed_vars = set()
    cfgs = CFGS
    walk = de_bruijn(len(ps), order)
    walk_states = set()
    for cfg in cfgs:
        fresh = {}       # probe idx -> result digest in a fresh process
        seen = {}        # state hash -> shortest history
        frontier = [()]
        pristine = None
        for d in range(1, depth + 1):
            hist = [h + (p,) for h in frontier for p in range(len(ps))]
            results = {}

            def on_r(c, h, status, value):
                chk.add("evaluations")
                if status != "ok":
                    tot["budget"] += 1
                    chk.violation("harness-%s" % status, {"history": [ps[i][0] for i in h], "config": list(c),
                                                          "detail": str(value)[-300:]})
                    return
                results[tuple(h)] = value

            tasks = [(cfg, [list(h)]) for h in hist]
            pool.run_tasks(tasks, work, setup=setup, unit_timeout=120, on_result=on_r)
            nxt = []
            for h in hist:
                v = results.get(h)
                if v is None:
                    continue
                tot["histories"] += 1
                tot["nvars"] = v["n_vars"]
                pristine = v["pristine"]
                last = v["steps"][-1]
                tot["transitions"] += 1
                for st in v["steps"]:
                    changed_vars.update(st["changed"])
                if d == 1:
                    fresh[h[0]] = last["result"]
                else:
                    if last["result"] != fresh.get(h[-1]):
                        chk.violation("history-dependent;probe=%s;after=%s;%s" % (
                            ps[h[-1]][0], ps[h[-2]][0], "+".join(c for c in cfg if c != "-greedy") or "default"),
                            {"config": list(cfg), "history": [ps[i][0] for i in h], "history_idx": list(h),
                             "probe_block": B.to_text(ps[h[-1]][1]),
                             "globals_changed_by_previous_step": v["steps"][-2]["changed"]})
                if last["state"] not in seen:
                    seen[last["state"]] = h
                    nxt.append(h)
            frontier = nxt
        seen.setdefault(pristine, ())
        # long walk: every word of length `order` over the probes occurs as consecutive transitions of ONE history
        wres = {}

        def on_w(c, w, status, value):
            chk.add("evaluations")
            wres["status"], wres["value"] = status, value

        pool.run_tasks([(cfg, [walk])], work_walk, setup=setup, unit_timeout=1800, on_result=on_w)
        if wres.get("status") != "ok":
            tot["budget"] += 1
            chk.violation("harness-walk-%s" % wres.get("status"), {"config": list(cfg), "detail": str(wres.get("value"))[-300:]})
        else:
            prev_state = pristine
            for pos, (idx, digest, sh) in enumerate(wres["value"]):
                tot["transitions"] += 1
                if sh not in seen:
                    seen[sh] = ("walk", pos)
                walk_states.add(sh)
                if digest != fresh.get(idx):
                    hist = walk[max(0, pos - order + 1):pos + 1]
                    chk.violation("history-dependent;probe=%s;after=%s;%s" % (
                        ps[idx][0], ps[walk[pos - 1]][0] if pos else "-", "+".join(c for c in cfg if c != "-greedy") or "default"),
                        {"config": list(cfg), "history": [ps[i][0] for i in walk[:pos + 1]][-12:],
                         "history_idx": list(walk[:pos + 1]), "probe_block": B.to_text(ps[idx][1]),
                         "note": "position %d of the de Bruijn walk" % pos})
            tot["histories"] += 1
        tot["states"] += len(seen)
        chk.sample({"config": list(cfg), "distinct_states": len(seen), "frontier_at_depth": len(frontier),
                    "example_history": [ps[i][0] for i in (frontier[0] if frontier else ())]})

    # cross-history agreement over a large victim pool (finds readers of leaked state the probe menu has no block for)
    nvict = len(victims())
    ncross = 0
    for cfg in cfgs[:2] if tier == "quick" else cfgs:
        got = {}

        def on_x(c, j, status, value):
            chk.add("evaluations")
            if status != "ok":
                tot["budget"] += 1
                chk.violation("harness-cross-%s" % status, {"config": list(c), "detail": str(value)[-300:]})
                return
            got[j] = value

        nh = len(ps) + 1
        pool.run_tasks([(cfg, [j]) for j in range(nh)], work_cross, setup=setup, unit_timeout=1800, on_result=on_x)
        vs = victims()
        for i in range(nvict):
            seen_d = {}
            for j, res in got.items():
                seen_d.setdefault(res.get(i), []).append(j)
            tot["transitions"] += len(got)
            if len(seen_d) > 1:
                groups = sorted(seen_d.values(), key=len)
                ja, jb = groups[0][0], groups[-1][0]
                chk.violation("history-dependent;cross;%s" % ("+".join(c for c in cfg if c != "-greedy") or "default"),
                              {"kind": "cross", "config": list(cfg), "victim_index": i, "victim": B.to_text(vs[i]),
                               "history_a": ja, "history_b": jb,
                               "polluter_a": None if ja == 0 else B.to_text(ps[(ja - 1) % len(ps)][1]),
                               "polluter_b": None if jb == 0 else B.to_text(ps[(jb - 1) % len(ps)][1])})
        ncross += len(got)
    chk.cov["cross_histories"] = ncross
    chk.cov["cross_victims"] = nvict

    # saturation histories
    rounds = 13 if tier == "quick" else 41
    vocab = vocabulary_blocks()
    nsat = 0
    for cfg in cfgs[:2] if tier == "quick" else cfgs:
        sres = {}

        def on_s(c, u, status, value):
            chk.add("evaluations")
            sres["status"], sres["value"] = status, value

        pool.run_tasks([(cfg, [rounds])], work_saturate, setup=setup, unit_timeout=3000, on_result=on_s)
        if sres.get("status") != "ok":
            tot["budget"] += 1
            chk.violation("harness-saturate-%s" % sres.get("status"), {"config": list(cfg), "detail": str(sres.get("value"))[-300:]})
            continue
        rows = sres["value"]
        tot["histories"] += 1
        for i, blk in enumerate(vocab):
            tot["transitions"] += len(rows)
            nsat += len(rows)
            first = rows[0][i]
            for rno, row in enumerate(rows):
                if row[i] != first:
                    chk.violation("history-dependent;saturation;%s" % ("+".join(c for c in cfg if c != "-greedy") or "default"),
                                  {"kind": "saturation", "config": list(cfg), "block": B.to_text(blk), "vocab_index": i,
                                   "first_differing_round": rno, "rounds": rounds,
                                   "note": "the vocabulary (one block per opcode) is processed round robin in one "
                                           "process; this block's result changed in the given round"})
                    break
    chk.cov["saturation_transitions"] = nsat
    chk.cov["saturation_vocabulary"] = len(vocab)
    chk.cov["saturation_rounds"] = rounds

    # position independence
    def on_p(cfg, trio, status, value):
        chk.add("evaluations")
        if status != "ok":
            tot["budget"] += 1
            chk.violation("harness-%s" % status, {"detail": str(value)[-300:]})
            return
        tot["pos"] += 1
        if value["viol"]:
            v = value["viol"]
            v["config"] = list(cfg)
            v["trio"] = [B.to_text(b) for b in trio[0]]
            v["layout"] = trio[1]
            chk.violation(v["clause"], v)
        else:
            tot["pos_rows"] = tot.get("pos_rows", 0) + value.get("rows", 0)

    pool.run_tasks([(cfg, [t]) for cfg in cfgs[:2] for t in position_docs()], work_pos, setup=setup_pos,
                   unit_timeout=120, on_result=on_p)
    chk.cov.update({"states": tot["states"], "transitions": tot["transitions"],
                    "traces_validated_against_impl": tot["histories"], "histories": tot["histories"],
                    "module_variables_in_snapshot": tot["nvars"], "globals_observed_to_change": sorted(changed_vars)[:80],
                    "globals_observed_to_change_count": len(changed_vars), "position_contracts": tot["pos"], "position_statistics_rows_compared": tot.get("pos_rows", 0), "walk_length": len(walk), "walk_word_order": order,
                    "probe_selection": sel, "probes": [[n, B.to_text(b)] for n, b in ps],
                    "distinct_nontrivial": tot["states"], "skipped_budget": tot["budget"], "depth": depth,
                    "explanation": "every history is replayed on the real implementation in a freshly forked process"})
    return chk.finish(guards={"states": tot["states"] > len(cfgs), "changed_vars": len(changed_vars)})


def replay(path):
    w = json.load(open(path))
    cfg = tuple(w["config"])
    if w.get("kind") == "cross":
        extra, _ = select_probes(("-greedy",), max_extra=10)
        del PROBES[:]
        PROBES.extend(probes() + extra)
        got = {}

        def on_x(c, j, status, value):
            got[j] = value if status == "ok" else {}

        pool.run_tasks([(cfg, [w["history_a"]]), (cfg, [w["history_b"]])], work_cross, setup=setup, unit_timeout=1800,
                       on_result=on_x)
        i = w["victim_index"]
        a, b = got.get(w["history_a"], {}).get(i), got.get(w["history_b"], {}).get(i)
        print("replay:", a, b)
        if a != b:
            print("VIOLATION property=C12 replay=%s" % path)
            return 1
        print("no violation on replay")
        return 0
    if str(w.get("clause", "")).startswith("position-"):
        from .c01 import parse_text
        pres = {}

        def on_pp(c, u, status, value):
            pres["status"], pres["value"] = status, value

        pool.run_tasks([(cfg, [([parse_text(t) for t in w["trio"]], w["layout"])])], work_pos, setup=setup_pos,
                       unit_timeout=300, on_result=on_pp)
        v = pres.get("value") if pres.get("status") == "ok" else None
        print("replay:", pres.get("status"), str(v and v.get("viol"))[:400])
        if v and v.get("viol"):
            print("VIOLATION property=C12 replay=%s" % path)
            return 1
        print("no violation on replay")
        return 0
    if w.get("kind") == "saturation":
        sres = {}

        def on_s(c, u, status, value):
            sres["status"], sres["value"] = status, value

        pool.run_tasks([(cfg, [w["first_differing_round"] + 1])], work_saturate, setup=setup, unit_timeout=3000,
                       on_result=on_s)
        rows = sres.get("value") if sres.get("status") == "ok" else None
        i = w["vocab_index"]
        print("replay:", sres.get("status"), rows and rows[0][i], rows and rows[-1][i])
        if rows and rows[0][i] != rows[-1][i]:
            print("VIOLATION property=C12 replay=%s" % path)
            return 1
        print("no violation on replay")
        return 0
    hist = w["history_idx"]
    out = {}

    def on_r(c, h, status, value):
        out[tuple(h)] = (status, value)

    pool.run_tasks([(cfg, [hist]), (cfg, [[hist[-1]]])], work, setup=setup, unit_timeout=120, on_result=on_r)
    a = out.get(tuple(hist))
    b = out.get((hist[-1],))
    print("replay:", a and a[0], b and b[0])
    if a and b and a[0] == "ok" and b[0] == "ok" and a[1]["steps"][-1]["result"] != b[1]["steps"][-1]["result"]:
        print("VIOLATION property=C12 replay=%s" % path)
        return 1
    print("no violation on replay")
    return 0
