import json,sys
pid, wt, out = sys.argv[1:4]
for l in open('/verif/properties.jsonl'):
    p=json.loads(l)
    if p['id']==pid: break
import glob, os
EXTRA = {  # changes delivered earlier whose artefacts are not under seeded/ (lost or duplicates)
 "C03": ["AND(SHL(X,Y),SHL(X,Z)) rule ignoring a second consumer of the rewritten SHL"],
 "C05": ["memory matching in the checker starting at the index where storage matching stopped"],
 "C07": ["accumulated offset in the position bounds of a third operand (ADDMOD/MULMOD)"],
 "C09": ["AsmBytecode objects of regenerated instructions shared through lru_cache"],
 "C11": ["exact opcode match dropping MSTORE8 from the checker's memory matching"],
 "C16": ["MSTORE8 counted twice in the minimal length"],
}
used = []
for mf in sorted(glob.glob('/verif/seeded/s*/meta.json')):
    m = json.load(open(mf))
    if m['breaks_property'] == pid:
        used.append("%s (%s): needs %s" % (os.path.basename(os.path.dirname(mf)).split('_', 1)[1].replace('_', ' '),
                                            ', '.join(m['files_changed']), m['needs_to_manifest']))
used += EXTRA.get(pid, [])
USED = ""
if used and len(sys.argv) > 4 and sys.argv[4] == "--novel":
    USED = ("\nALREADY TAKEN -- other people have already submitted the following changes for this property; yours must use a DIFFERENT "
            "site and a DIFFERENT mechanism (a different function, ideally a different file or a different stage of the pipeline), "
            "so do not resubmit any of these or a close variant:\n" + "".join("  - %s\n" % u for u in used))
print(f"""You are helping to evaluate a verification effort by writing a *seeded defect* for an open-source Python project.

The project is costa-group/gasol-optimizer (GASOL: an EVM basic-block super-optimizer). You have your own private git worktree of it at {wt} (Python interpreter with all dependencies: /venv/bin/python). Work ONLY inside {wt} and {out}. Do not read or touch /verif or /repo.

Here is a semantic property the project is supposed to satisfy:

TITLE: {p['title']}
STATEMENT: {p['statement']}
QUANTIFIED OVER: {p['quantifier']['text']}
RELEVANT FILES (hint): {', '.join(p['anchors']['files'])}

YOUR TASK: make ONE small, realistic change to the project's source code (the kind of mistake a maintainer could plausibly make in a refactoring or "optimization": an off-by-one, a wrong operand index, a dropped condition, a swapped comparison, a missing case, state hoisted to module scope, a cache that is not invalidated, ...) that BREAKS this property, while
  (a) the code still imports and runs, and
  (b) the project's existing test-suite still passes exactly as before. Check with:
      cd {wt} && /venv/bin/python -m pytest -q -p no:cacheprovider --timeout=900 --continue-on-collection-errors 2>&1 | tail -5
      (it takes about 3 minutes; on the unmodified tree the summary is "53 failed, 48 passed, ... 1 error" -- the same tests must pass/fail after your change).
{USED}Prefer a change that needs something SPECIFIC to manifest -- a particular input shape, operand value, option combination, multi-step sequence, or two cooperating sites that each look fine alone -- not one that breaks every run. Do not merely delete a whole feature or make everything crash. Do not edit tests.

Useful facts: the command line is `cd <dir> && /venv/bin/python {wt}/gasol_asm.py <input> [options]`; `-bl` treats the input as a text file with one block of EVM assembly (e.g. `PUSH1 0x01 DUP2 ADD SWAP1 POP`); `-greedy` selects the greedy back-end (no external solver is installed, so always use -greedy); other options: -storage, -partition, -size, -length, -no-simplification, -push0, -log, -optimize-from-log <file>; without -bl the input is a solc `--combined-json asm` file (examples under {wt}/examples/jsons-solc). Output files are written to the current directory (named `<input name>_optimized.*`; glob for it), together with `<name>_statistics_seq.csv`, `<name>_statistics_blocks.csv` and, with -log, `<name>.log`. You can also call the Python functions directly (gasol_asm.optimize_asm_block_asm_format, compare_asm_block_asm_format, sfs_generator.parser_asm.parse_blocks_from_plain_instructions, greedy.block_generation.greedy_from_json, ...). Beware: some inputs make the tool very slow; always run your experiments under `timeout 120`.

DELIVERABLES, all written into {out}/ :
  1. patch.diff  -- output of `git -C {wt} diff` (only source files, no tests).
  2. demo.py (or demo.sh) -- a small self-contained program that takes the path of a gasol-optimizer checkout as its first argument, exercises it, and exits 0 when the property holds on its input and non-zero (printing what went wrong) when it is violated. It MUST fail on your modified tree and pass on the unmodified tree. Verify both WITHOUT git stash (the stash list is shared with other people's worktrees): save `git -C {wt} diff > {out}/patch.diff`, un-apply with `git -C {wt} apply -R {out}/patch.diff`, run the demo, then re-apply with `git -C {wt} apply {out}/patch.diff`.
  3. notes.md -- 5-10 lines: what you changed, why it violates the property, what exactly is needed to trigger it, and the outputs of the test-suite summary line and of the demo on both trees.

Leave your change applied (uncommitted) in {wt} when you finish. Report back briefly what you did.""")
