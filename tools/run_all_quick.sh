#!/bin/sh
# Runs every quick check once; prints one status line per check.
cd /verif
for c in C01 C02 C03 C04 C05 C06 C07 C08 C09 C10 C11 C12 C13 C14 C15 C16 C17 C18; do
  s=$(date +%s)
  ./check $c --tier quick > /dev/shm/quick_$c.log 2>&1
  rc=$?
  e=$(date +%s)
  echo "$c exit=$rc wall=$((e-s))s violations=$(grep -c '^VIOLATION' /dev/shm/quick_$c.log) known=$(grep -c '^KNOWN-FINDING' /dev/shm/quick_$c.log)"
done
