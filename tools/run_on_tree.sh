#!/bin/sh
# usage: tools/run_on_tree.sh <tree> <ID> [quick|thorough] [extra args]  -- run a check against another checkout
# (a seeded-defect worktree); evidence and replays go to /dev/shm/verif_out_<ID>, never to /verif.
TREE=$1; ID=$2; TIER=${3:-quick}; shift 3 2>/dev/null
OUT=/dev/shm/verif_out_$ID
rm -rf "$OUT"; mkdir -p "$OUT"
cd /verif && GASOL_REPO="$TREE" VERIF_OUT="$OUT" ./check "$ID" --tier "$TIER" "$@"
