#!/bin/sh
# usage: tools/confirm_seeded.sh <dir with patch.diff and demo.py|demo.sh>
# Confirms a seeded change on a scratch worktree: demo passes without the change, fails with it, and the repository's
# baseline tests still pass with it.
D=$(readlink -f "$1")
WT=/tmp/seed_confirm_$$
git -C /repo worktree add -q "$WT" HEAD || exit 2
run_demo() { if [ -f "$D/demo.py" ]; then (cd /tmp && timeout 900 /venv/bin/python "$D/demo.py" "$WT" > /tmp/seed_confirm_$$.demo 2>&1); else (cd /tmp && timeout 900 sh "$D/demo.sh" "$WT" > /tmp/seed_confirm_$$.demo 2>&1); fi; echo $?; }
a=$(run_demo)
echo "demo on clean tree: exit=$a"
if ! git -C "$WT" apply "$D/patch.diff"; then echo "PATCH DOES NOT APPLY"; git -C /repo worktree remove --force "$WT"; exit 2; fi
b=$(run_demo)
echo "demo on changed tree: exit=$b ($(tail -1 /tmp/seed_confirm_$$.demo | cut -c1-160))"
(cd "$WT" && /venv/bin/python -m pytest -ra -q -p no:cacheprovider --timeout=900 --continue-on-collection-errors --junitxml=/tmp/seed_confirm_$$.xml > /dev/null 2>&1)
/venv/bin/python /verif/tools/baseline_compare.py /tmp/seed_confirm_$$.xml; c=$?
git -C /repo worktree remove --force "$WT"; rm -f /tmp/seed_confirm_$$.xml /tmp/seed_confirm_$$.demo
[ "$a" = 0 ] && [ "$b" != 0 ] && [ "$c" = 0 ] && echo "CONFIRMED" || echo "NOT CONFIRMED"
