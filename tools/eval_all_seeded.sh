#!/bin/sh
# usage: tools/eval_all_seeded.sh [out-file]   -- regression of the detection matrix: every stored seeded change is
# applied to a scratch worktree of /repo HEAD and the FIRST check listed in its meta.json "caught_by" is run (quick
# tier) against it; prints one line per change.  Exit 1 if some change is no longer detected or no longer applies.
OUT=${1:-/dev/shm/seeded_regression.out}
: > "$OUT"
rc=0
for d in /verif/seeded/s*/; do
  id=$(basename "$d")
  chk=$(/venv/bin/python -c "import json,sys; print(json.load(open('$d/meta.json'))['caught_by'][0])")
  if ! git -C /repo apply --check "$d/patch.diff" 2>/dev/null; then
    echo "$id DOES-NOT-APPLY" | tee -a "$OUT"; rc=1; continue
  fi
  line=$(/verif/tools/eval_seeded.sh "$d" "$chk" 2>&1 | tail -1)
  echo "$id $line" | tee -a "$OUT"
  case "$line" in *"exit=1"*) ;; *) rc=1;; esac
done
exit $rc
