"""Cross-validation of mc/smt_enum.py against z3 (run with python3-vt): for every dumped instance, enumerate the
projections onto t_0..t_{b0-1} with z3 (blocking clauses) and compare with the enumerator's set."""
import json, re, sys
import z3

def z3_projections(path, cap=5000):
    text = open(path).read()
    # strip optimisation commands
    text = "\n".join(l for l in text.splitlines() if not l.startswith(("(assert-soft", "(minimize", "(check-sat", "(get-", "(set-option")))
    s = z3.Solver()
    s.from_string(text)
    decls = {}
    for a in s.assertions():
        stack = [a]
        while stack:
            e = stack.pop()
            if z3.is_const(e) and e.decl().kind() == z3.Z3_OP_UNINTERPRETED:
                decls[e.decl().name()] = e
            stack.extend(e.children())
    ts = sorted((n for n in decls if re.match(r"^t_\d+$", n)), key=lambda n: int(n[2:]))
    thetas = sorted(n for n in decls if n.startswith("theta_"))
    out = set()
    while len(out) < cap and s.check() == z3.sat:
        m = s.model()
        proj = []
        block = []
        for t in ts:
            tv = decls[t]
            if thetas:
                name = None
                for th in thetas:
                    if z3.is_true(m.eval(tv == decls[th], model_completion=True)):
                        name = "@" + th
                        break
                proj.append(name or "<other-theta>")
                block.append(tv != decls[name[1:]] if name else z3.BoolVal(False))
            else:
                v = m.eval(tv, model_completion=True).as_long()
                proj.append(str(v))
                block.append(tv != v)
        out.add(tuple(proj))
        s.add(z3.Or(block))
    return out

idx = json.load(open(sys.argv[1]))
bad = 0
for e in idx:
    mine = set(tuple(p) for p in e["projs"])
    ref = z3_projections(e["file"])
    ok = mine == ref
    print("%s %-50s %-28s mine=%d z3=%d %s" % ("OK " if ok else "BAD", e["block"], " ".join(e["cfg"]), len(mine), len(ref), "" if ok else (sorted(mine - ref)[:2], sorted(ref - mine)[:2])))
    bad += not ok
print("disagreements:", bad)
sys.exit(1 if bad else 0)
