"""usage: cov_report.py <dump dir> [--files a.py,b.py] [--min N]
Merges the dumps written with VERIF_COV=<dir> and prints, per function of the anchor files of properties.jsonl (or
the files given), the executable lines no harness process reached.  Development aid (mc/cov.py)."""
import glob
import json
import os
import sys

REPO = os.environ.get("GASOL_REPO", "/repo")


def exec_lines(path):
    src = open(path).read()
    top = compile(src, path, "exec")
    out = {}  # line -> qualified function name

    def walk(code, qual):
        for _, _, ln in code.co_lines():
            if ln is not None and ln > 0:
                out.setdefault(ln, qual)
        for c in code.co_consts:
            if hasattr(c, "co_lines"):
                name = c.co_name
                walk(c, qual + "." + name if qual else name)
    walk(top, "")
    return out, src.splitlines()


def main():
    d = sys.argv[1]
    files = None
    minlines = 1
    for i, a in enumerate(sys.argv):
        if a == "--files":
            files = sys.argv[i + 1].split(",")
        if a == "--min":
            minlines = int(sys.argv[i + 1])
    hits = set()
    for f in glob.glob(os.path.join(d, "*.json")):
        for fn, ln in json.load(open(f)):
            hits.add((fn, ln))
    if files is None:
        files = set()
        for l in open("/verif/properties.jsonl"):
            files.update(json.loads(l)["anchors"]["files"])
        files = sorted(files)
    tot_e = tot_h = 0
    for rel in files:
        path = os.path.join(REPO, rel)
        if not os.path.isfile(path):
            continue
        lines, src = exec_lines(path)
        miss = {}
        for ln, q in sorted(lines.items()):
            if (rel, ln) not in hits:
                miss.setdefault(q, []).append(ln)
        e = len(lines)
        h = e - sum(len(v) for v in miss.values())
        tot_e += e
        tot_h += h
        print("== %s: %d/%d lines reached" % (rel, h, e))
        for q, lns in miss.items():
            if len(lns) < minlines:
                continue
            fl = [ln for ln, qq in lines.items() if qq == q]
            if len(lns) == len(fl):
                print("   %-60s NEVER ENTERED (%d lines, from %d)" % (q or "<module>", len(lns), lns[0]))
            else:
                print("   %-60s %d/%d missed: %s" % (q or "<module>", len(lns), len(fl), _ranges(lns)))
    print("TOTAL %d/%d" % (tot_h, tot_e))


def _ranges(lns):
    out = []
    s = p = lns[0]
    for x in lns[1:]:
        if x == p + 1:
            p = x
            continue
        out.append("%d-%d" % (s, p) if p > s else str(s))
        s = p = x
    out.append("%d-%d" % (s, p) if p > s else str(s))
    return " ".join(out)


main()
