#!/bin/sh
# usage: tools/eval_seeded.sh <seeded-dir-or-patch> <ID> [<ID> ...]
# Applies the patch to a scratch worktree of /repo HEAD (never to /repo itself), runs the given quick checks against
# it (evidence/replays under /dev/shm), prints one line per check, removes the worktree.
P=$1; shift
[ -d "$P" ] && P="$P/patch.diff"
P=$(readlink -f "$P")
WT=/tmp/seed_eval_$$
git -C /repo worktree add -q "$WT" HEAD || exit 2
if ! git -C "$WT" apply "$P"; then echo "patch does not apply"; git -C /repo worktree remove --force "$WT"; exit 2; fi
for ID in "$@"; do
  OUT=/dev/shm/seed_out_$$_$ID; rm -rf "$OUT"; mkdir -p "$OUT"
  s=$(date +%s)
  (cd /verif && GASOL_REPO="$WT" VERIF_OUT="$OUT" ./check "$ID" --tier quick > "$OUT/log" 2>&1); rc=$?
  e=$(date +%s)
  echo "$ID exit=$rc wall=$((e-s))s violations=$(grep -c '^VIOLATION' "$OUT/log") first=$(grep -A1 '^VIOLATION' "$OUT/log" | grep signature | head -1 | cut -c1-150)"
  [ $rc -eq 2 ] && tail -5 "$OUT/log"
done
git -C /repo worktree remove --force "$WT"
