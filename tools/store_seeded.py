"""usage: store_seeded.py <id> <agent out dir> <property> <needs> <caught-by> <ran>   -- files a confirmed seeded change
under /verif/seeded/<id>/ (patch.diff, demonstration, meta.json)."""
import json, os, shutil, sys
sid, src, prop, needs, caught, ran = sys.argv[1:7]
dst = os.path.join("/verif/seeded", sid)
os.makedirs(dst, exist_ok=True)
for f in sorted(os.listdir(src)):
    p = os.path.join(src, f)
    if os.path.isfile(p) and (f == "patch.diff" or f.endswith((".py", ".sh", ".md"))) and os.path.getsize(p) < 200000:
        shutil.copy(p, os.path.join(dst, f))
meta = {"id": sid, "breaks_property": prop, "needs_to_manifest": needs, "caught_by": caught.split(","),
        "what_was_run": ran,
        "files_changed": sorted({l[6:].strip() for l in open(os.path.join(dst, "patch.diff")) if l.startswith("+++ b/")})}
json.dump(meta, open(os.path.join(dst, "meta.json"), "w"), indent=1)
print("stored", dst)
