#!/bin/sh
# Runs the repository's own test-suite on a scratch worktree of /repo HEAD and compares with BASELINE.json stable_pass.
set -e
WT=/tmp/wt_baseline_$$
git -C /repo worktree add -q "$WT" HEAD
cd "$WT"
/venv/bin/python -m pytest -ra -q -p no:cacheprovider --timeout=900 --continue-on-collection-errors --junitxml=/tmp/wt_baseline_$$.xml > /tmp/wt_baseline_$$.log 2>&1 || true
cd /
/venv/bin/python /verif/tools/baseline_compare.py /tmp/wt_baseline_$$.xml
RC=$?
git -C /repo worktree remove --force "$WT"
rm -f /tmp/wt_baseline_$$.xml /tmp/wt_baseline_$$.log
exit $RC
