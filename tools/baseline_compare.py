"""Compare a junit xml of the repository's test-suite with /root/.vp/BASELINE.json stable_pass."""
import json, sys
import xml.etree.ElementTree as ET
base = json.load(open("/root/.vp/BASELINE.json"))
want = set(base["stable_pass"])
root = ET.parse(sys.argv[1]).getroot()
passed = set()
for tc in root.iter("testcase"):
    name = "%s::%s" % (tc.get("classname"), tc.get("name"))
    if not any(ch.tag in ("failure", "error", "skipped") for ch in tc):
        passed.add(name)
missing = sorted(want - passed)
print("baseline stable_pass=%d, passed now=%d, missing=%d" % (len(want), len(want & passed), len(missing)))
for m in missing:
    print("  MISSING", m)
sys.exit(1 if missing else 0)
